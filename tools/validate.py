#!/usr/bin/env python3
"""Validate MANIFEST.json and evidence/*.json against the schemas (python3-vt)."""
import json, glob, sys, os
import jsonschema
here = os.path.dirname(os.path.dirname(os.path.abspath(__file__)))
ms = json.load(open('/root/.vp/MANIFEST.schema.json'))
es = json.load(open('/root/.vp/EVIDENCE.schema.json'))
man = json.load(open(os.path.join(here, 'MANIFEST.json')))
jsonschema.validate(man, ms)
print('MANIFEST ok:', [c['property_id'] for c in man['checks']])
ids = set(json.loads(l)['id'] for l in open(os.path.join(here, 'properties.jsonl')))
claimed = set(c['property_id'] for c in man['checks'])
na = set(e['property_id'] for e in man.get('not_applicable', []))
assert claimed | na == ids and not (claimed & na), (ids - claimed - na, claimed & na)
bad = 0
for c in man['checks']:
    p = os.path.join(here, c['evidence_file'])
    if not os.path.exists(p):
        print('missing evidence', p); bad += 1; continue
    try:
        jsonschema.validate(json.load(open(p)), es)
        print('evidence ok:', c['evidence_file'])
    except jsonschema.ValidationError as e:
        print('INVALID', p, e.message); bad += 1
sys.exit(1 if bad else 0)
