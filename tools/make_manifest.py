#!/usr/bin/env python3
"""Regenerate /verif/MANIFEST.json from the table below (keeps it valid)."""
import json
import os
import sys

HERE = os.path.dirname(os.path.dirname(os.path.abspath(__file__)))

BUILT = set(os.environ.get('BUILT', 'C01,C03,C10,C11,C12,C17,C18').split(','))

LEVEL_TEXT = {
    'C01': ('Seeded search over histories of in-place arithmetic on a pool of '
            'live elements (all five identity-aliasing patterns, size regimes '
            'around both thresholds, dtypes incl. float16 / int16 / '
            'byte-swapped, C/F/strided layouts, weighted and exponent-p '
            'spaces, shape (), unaligned buffers, product spaces with shared '
            'parts, sub-elements, broadcast operands that are parts of the '
            'output, raw array / list operands, interludes on the twin space '
            'of the other precision, a few '
            '+-inf/NaN entries) with allocator/out-buffer garbage injected; every '
            'operation is checked against an independent value model, '
            'non-output operands bitwise, and re-executed under a second '
            'garbage kind. Exploration, not proof: the identity-pattern x '
            'leaf x dtype space is sampled densely, element values are '
            'sampled.', '4/C01'),
    'C03': ('Seeded search over operator instances (one recipe per concrete '
            'Operator class found by introspection) x histories of '
            'out-of-place / in-place / rejected calls with garbage injected '
            'into out buffers, fresh allocations and caller scratch; oracle: '
            'in-place == out-of-place, input bitwise untouched, result in '
            'range / returned object is out, long-lived instance == fresh '
            'replica, rejection before any write. Pool elements and outs '
            'come in C / Fortran / strided layouts and with structured value '
            'patterns (zero element, vanishing points, ties); x and out may '
            'be interleaved views of one buffer; every result an earlier '
            'call returned is re-checked after every later operation; the '
            'caller may take op.derivative(x), change x in place and call '
            'again.', '4/C03'),
    'C10': ('For every proximal the library can produce (factories x options, '
            'Functional.proximal / convex_conj.proximal incl. derived '
            'functionals) and the listed solver building blocks: aliased '
            'call P(y, out=y) vs P(x) under injected garbage and across call '
            'histories, incl. a second aliased call on what the first one '
            'left (vs P(P(x)) of a fresh instance); the aliased call sites '
            'themselves are driven through C11 lockstep runs.', '4/C10'),
    'C11': ('Lockstep refinement of each memory-optimised solver against the '
            'shipped _simple reference iterate by iterate, crash/resume with '
            'only caller-held state surviving (callback raises at a planned '
            'iteration; restart from same objects, copies or serialised '
            'bytes; for PDHG also against the plain call without resumption '
            'variables), exactly-once callback accounting incl. composite '
            'callbacks shared between runs, operators that return views of '
            'their input, all under allocator '
            'garbage and forced permutation schedules. Seeded exploration '
            'over instances, schedules and fault sequences.', '4/C11'),
    'C12': ('Per-step invariants evaluated inside the callback while real '
            'solver runs proceed (energy/residual/distance/objective '
            'monotonicity, He-Yuan distance for PDHG), fixed-point checks at '
            'constructed saddle points, and bounded liveness (eps-KKT '
            'residual below 1e-3 of start within 3000 iterations after the '
            'last injected fault; 30000 for an iterate already within 1e-3 '
            'of a verified KKT point), CG restarts next to the solution, '
            'explicit line-search budgets on stiff objectives, over seeded instances, RNG states, forced '
            'permutation schedules and iterate-perturbation faults.', '4/C12'),
    'C17': ('Stateful part of the property only: histories of writes through '
            'any handle (raw array, wrapping elements, asarray views, '
            'out= arguments, in-place ufuncs, ufunc.at with values from '
            'another storage, array operands of a foreign dtype or a larger '
            'broadcast shape) on shared storages, checked for '
            'coherence and for bit-identity with NumPy on the model arrays; '
            'out buffers are garbage-filled first.', '4/C17'),
    'C18': ('Histories of calls on long-lived transform objects sharing '
            'plans/temporaries with their inverse/adjoint (create/clear '
            'temporaries, init/clear FFTW plan, in-place and out-of-place '
            'calls, wisdom kept or forgotten, scribbled temporaries, garbage '
            'in out and planning buffers, a transform of the twin precision '
            'first, x and out as interleaved views of one buffer) checked call by call against '
            'numpy.fft on a copy, a direct-sum model of the continuous '
            'transform, a fresh replica and the other back-end; pool elements '
            'and outs in C / Fortran / strided layouts, every element the '
            'caller holds checked after every operation. DFT/FT clauses '
            'only.', '4/C18'),
}

LEVEL_NOTE = {
    'C01': 'Trusted: the longdouble/exact-integer value model (IEEE arithmetic for the runs with +-inf/NaN entries, where a term with an exactly zero scalar may be dropped and x1 is x2 may be evaluated as (a+b)*x1), NumPy itself. Complex non-finite values, powers of non-finite entries, longdouble and float scalars on integer spaces are outside the explored domain.',
    'C03': 'Trusted: recipe table (classes without a recipe are listed in the evidence as uncovered), tolerance 64 eps between legitimately different code paths. ASTRA back-ends absent in the sandbox.',
    'C10': 'Trusted: the non-aliased call P(x) as reference (its own correctness is C07, not claimed). Covered set is the explicit class list in DESIGN 4/C10. An out that is an element the operator itself holds (its translation, data term ...) is measured, not judged (DESIGN section 11, seed t10).',
    'C11': 'Trusted: the shipped _simple solvers as reference; instances limited to dimension <= 8, exact adjoints, admissible steps. Default (power-method) step sizes are excluded from the resumption oracle because they legitimately differ between segments.',
    'C12': 'Trusted: harness-side dense linear algebra (SVD norms, exact solutions), closed-form sub-differentials of the generated functional families, easy-instance filter by an independent NumPy PDHG. A slower-but-convergent update rule is not a violation of the property as stated.',
    'C17': 'Decides only the stateful clauses (out=, shared memory, asarray round trip, operand mixing) plus bit-identity with NumPy as a by-product; weight propagation of reduced spaces is not judged.',
    'C18': 'Wavelet clauses and convergence to the analytic Gaussian transform are pure functions of the input and are not decided by this technique (see DESIGN 4/C18). Multi-threaded FFTW plans are compared by tolerance only.',
}

TECH = {
    'C01': 'deterministic simulation: seeded op histories on a live element pool + allocator/out garbage injection, reference value model',
    'C03': 'deterministic simulation: seeded call histories per operator instance + garbage/scratch fault injection, stateless-replica oracle',
    'C10': 'deterministic simulation: seeded aliased-call histories + garbage injection, non-aliased reference',
    'C11': 'deterministic simulation: lockstep refinement vs reference, crash/restart at callback boundaries, forced schedules, allocator garbage',
    'C12': 'deterministic simulation: in-run invariants, fixed points, bounded liveness after injected faults',
    'C17': 'deterministic simulation: seeded write histories over shared storages, NumPy model, garbage-filled out',
    'C18': 'deterministic simulation: seeded call/plan/temporary histories on stateful transforms, stateless numpy.fft model, fault injection',
}

ENGINE = {'C01': 'poolsim', 'C17': 'poolsim', 'C03': 'callsim',
          'C10': 'callsim', 'C11': 'solversim', 'C12': 'solversim',
          'C18': 'fftsim'}

NA = {
    'C02': 'inner/norm/dist are read-only pure functions of (elements, weighting); axioms and weighted-sum formulas contain no history, allocator, schedule or fault for a simulator to control.',
    'C04': 'the value of an operator expression is a pure function of the expression tree and the point; the only nondeterminism (scratch/out contents in the combinators) is C03\'s subject and is exercised there for every expression class.',
    'C05': '<Ax,y> = <x,A*y> is an identity between two pure linear maps, decided by matrices, not by runs; used only as an instance filter in solversim.',
    'C06': 'derivative vs. finite differences is a pure function of (operator, point, direction); no state survives a call.',
    'C07': 'proximal optimality is a pure function of (functional, sigma, x); no schedule, crash point or fault in the statement.',
    'C08': 'Fenchel-Young, biconjugation and Moreau decomposition are identities between pure functions.',
    'C09': 'gradient/value/Lipschitz consistency is an identity between pure functions.',
    'C13': 'a stencil matrix per configuration; nothing is retained between calls (out handling of Gradient/Divergence/Laplacian runs under C03).',
    'C14': 'partitions and grids are immutable value objects; all clauses are input-only.',
    'C15': 'collocation and interpolation are pure functions of (callable, grid, points) (Resampling\'s in-place path runs under C03).',
    'C16': 'resize_array is a pure function of its arguments (ResizingOperator in-place/adjoint paths run under C03).',
    'C19': 'geometries are immutable; rotation algebra is pure.',
    'C20': 'equality/hash/membership coherence is a relation on immutable descriptors; Python\'s per-process hash seed cannot break equal => equal hash within a process.',
}

UNBUILT_REASON = ('claimed in DESIGN.md but its engine is not finished in '
                  'this commit; listed here only until the check exists')


def main():
    checks = []
    na = []
    for pid in sorted(LEVEL_TEXT):
        if pid not in BUILT:
            na.append({'property_id': pid, 'reason': UNBUILT_REASON})
            continue
        text, ref = LEVEL_TEXT[pid]
        checks.append({
            'property_id': pid,
            'quick_cmd': './check {} --tier quick'.format(pid),
            'thorough_cmd': './check {} --tier thorough'.format(pid),
            'evidence_file': 'evidence/{}.json'.format(pid),
            'replay_cmd_template': './check {} --replay {{path}}'.format(pid),
            'engine': ENGINE[pid],
            'level_claimed': {'category': 'exploration', 'text': text,
                              'design_ref': 'DESIGN.md section ' + ref},
            'level_note': LEVEL_NOTE[pid],
            'technique': TECH[pid],
        })
    for pid in sorted(NA):
        na.append({'property_id': pid, 'reason': NA[pid]})
    na.sort(key=lambda e: e['property_id'])
    man = {
        'version': 1,
        'setup_cmd': '/venv/bin/python -c "import sys; sys.path.insert(0, \'/repo\'); import numpy, scipy, odl, pyfftw, pywt; print(odl.__file__)" && chmod +x ./check',
        'hooks': {
            'guard': 'ODL_VERIF_SIM',
            'enable': 'no source hooks: every seam is a harness-side module-attribute patch (numpy.empty/empty_like, numpy.random.permutation, odl.space.npy_tensors thresholds, pyfftw wisdom) installed by ./check inside its own process; /repo is imported from its working tree unchanged',
            'baseline_off_cmd': 'cd /repo && /venv/bin/python -m pytest -ra -q -p no:cacheprovider --timeout=900 --continue-on-collection-errors',
            'source_commits': [],
            'add_only': True,
        },
        'engines': [
            {'name': 'solversim', 'path': 'odlsim/engines/solversim.py',
             'serves_properties': ['C11', 'C12'],
             'kind_free_text': 'seeded problem instances; lockstep vs reference; crash/resume at callback boundaries; in-run invariants; bounded liveness'},
            {'name': 'callsim', 'path': 'odlsim/engines/callsim.py',
             'serves_properties': ['C03', 'C10'],
             'kind_free_text': 'recipe table over all Operator classes; call histories with garbage/scratch faults; stateless replica oracle'},
            {'name': 'poolsim', 'path': 'odlsim/engines/poolsim.py',
             'serves_properties': ['C01', 'C17'],
             'kind_free_text': 'pool of live elements / shared storages; op histories vs value model'},
            {'name': 'fftsim', 'path': 'odlsim/engines/fftsim.py',
             'serves_properties': ['C18'],
             'kind_free_text': 'stateful Fourier transform objects; plan/temporary/wisdom histories vs numpy.fft'},
        ],
        'checks': checks,
        'not_applicable': na,
        'notes': 'Technique family: deterministic simulation with fault injection. One integer (VERIF_SEED) decides every plan; ./check <id> --replay <file> re-executes a minimised plan. Genuine defects found are either repaired by fix: commits in /repo or listed in known_findings.json. See DESIGN.md.',
    }
    with open(os.path.join(HERE, 'MANIFEST.json'), 'w') as f:
        json.dump(man, f, indent=1)
    print('wrote MANIFEST.json with checks', [c['property_id'] for c in checks])


if __name__ == '__main__':
    main()
