#!/usr/bin/env python3
"""Intake of a sub-agent's seeded change: tools/intake.py <wid> <name> <prop>

<wid>: worktree /tmp/wt-<wid> (change applied, uncommitted), output
/tmp/out-<wid>/{patch.diff,demo.py,README.md}.  Verifies, by our own runs,
(1) the patch applies to /repo's HEAD (git apply --check),
(2) the full suite passes in the worktree with the change,
(3) demo.py fails with the change and passes without it,
then stores seeded/<name>/ with a meta.json skeleton (summary / needs are
filled in by hand) and prints the verdicts.  The worktree is left for the
caller to remove.
"""
import json
import os
import shutil
import subprocess
import sys

VERIF = os.path.dirname(os.path.dirname(os.path.abspath(__file__)))


def sh(cmd, cwd=None, env=None, timeout=1800):
    p = subprocess.run(cmd, shell=True, cwd=cwd, env=env, timeout=timeout,
                       stdout=subprocess.PIPE, stderr=subprocess.STDOUT)
    return p.returncode, p.stdout.decode(errors='replace')


def main():
    wid, name, prop = sys.argv[1:4]
    wt, out = '/tmp/wt-' + wid, '/tmp/out-' + wid
    env = dict(os.environ, PYTHONPATH=wt)
    # the agent's patch.diff is the source of truth (agents share one git
    # stash stack through the common .git and have popped each other's
    # stashes): reset the worktree and apply it
    sh('git -C {} checkout -- .'.format(wt))
    rc, o = sh('git -C {} apply {}/patch.diff'.format(wt, out))
    if rc != 0:
        print('patch.diff does not apply to a clean worktree:', o[:300])
        return 2
    rc, diff = sh('git -C {} diff'.format(wt))
    if not diff.strip():
        print('no change in the worktree')
        return 2
    dst = os.path.join(VERIF, 'seeded', name)
    os.makedirs(dst, exist_ok=True)
    with open(os.path.join(dst, 'patch.diff'), 'w') as f:
        f.write(diff)
    for fn in ('demo.py', 'README.md'):
        shutil.copy(os.path.join(out, fn), os.path.join(dst, fn))
    rc, o = sh('git -C /repo apply --check {}'.format(
        os.path.join(dst, 'patch.diff')))
    print('applies to /repo HEAD:', rc == 0, o.strip()[:200])
    rc_w, o_w = sh('/venv/bin/python demo.py'.replace(
        'demo.py', os.path.join(dst, 'demo.py')), cwd=wt, env=env)
    print('demo WITH change: rc', rc_w, '|', o_w.strip().splitlines()[-1:]
          )
    sh('git -C {} apply -R {}'.format(wt, os.path.join(dst, 'patch.diff')))
    try:
        rc_o, o_o = sh('/venv/bin/python ' + os.path.join(dst, 'demo.py'),
                       cwd=wt, env=env)
    finally:
        sh('git -C {} apply {}'.format(wt, os.path.join(dst, 'patch.diff')))
    print('demo WITHOUT change: rc', rc_o, '|', o_o.strip().splitlines()[-1:])
    rc_s, o_s = sh('/venv/bin/python -m pytest -q -p no:cacheprovider '
                   '--timeout=900 odl 2>&1 | tail -3', cwd=wt, env=env)
    last = o_s.strip().splitlines()[-1] if o_s.strip() else ''
    print('suite with change:', last)
    ok = rc_w != 0 and rc_o == 0 and '3873 passed' in last and \
        'failed' not in last
    meta = {'property': prop,
            'origin': 'independent sub-agent, wave 11: free choice of '
                      'mechanism with the list of all earlier attempts as '
                      'exclusion list (no access to /verif)',
            'summary': '', 'needs': '',
            'confirmed': 'suite 3873 passed with the change; demo.py exits '
                         '{} with and {} without the change (run in the '
                         'worktree by the main session)'.format(rc_w, rc_o),
            'detected_by': []}
    mp = os.path.join(dst, 'meta.json')
    if not os.path.exists(mp):
        with open(mp, 'w') as f:
            json.dump(meta, f, indent=1)
    print('CONFIRMED' if ok else 'NOT CONFIRMED', '->', dst)
    return 0 if ok else 1


if __name__ == '__main__':
    sys.exit(main())
