"""odlsim -- deterministic simulation with fault injection for odlgroup/odl.

See /verif/DESIGN.md.  Import order matters: `odlsim.env` must be imported
before NumPy so that BLAS threading is pinned.
"""
