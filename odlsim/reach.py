"""selftest-reach: which lines of the code a property is anchored in do the
simulated runs of that property actually execute?

Not a property check.  For every claimed property, K runs of the quick tier
(the same plans `./check <id>` executes: run r of batch seed s) are executed
in one worker process per property under `coverage` (line tracing restricted
to /repo/odl), and the statements of the property's anchor files are split
into executed / never executed, grouped by function.  A function of an anchor
file that no run entered, or a branch body inside an anchored mechanism that
stayed cold, is where the workload or the fault mix has to change -- the
guidance's "a probe stuck at zero".  Output: evidence/reach.json and a table.

The coverage tracer slows the runs down 3-10x and is therefore never part of
a property check; digests are not compared here.
"""
import ast
import json
import os
import sys
import time
from concurrent.futures import ProcessPoolExecutor
import multiprocessing

from .env import VERIF

REPO = '/repo'


def _anchors():
    out = {}
    with open(os.path.join(VERIF, 'properties.jsonl')) as f:
        for line in f:
            d = json.loads(line)
            out[d['id']] = list(d['anchors']['files'])
    return out


def _functions(path):
    """[(qualified name, first line, last line)] of every def in a file."""
    with open(path) as f:
        tree = ast.parse(f.read())
    res = []

    def walk(node, prefix):
        for ch in ast.iter_child_nodes(node):
            if isinstance(ch, (ast.FunctionDef, ast.AsyncFunctionDef)):
                q = prefix + ch.name
                res.append((q, ch.lineno, ch.end_lineno))
                walk(ch, q + '.')
            elif isinstance(ch, ast.ClassDef):
                walk(ch, prefix + ch.name + '.')
            else:
                walk(ch, prefix)
    walk(tree, '')
    return res


def _worker(args):
    prop, runs, seed, files = args
    import coverage
    from . import runner, seams
    cov = coverage.Coverage(data_file=None, include=[os.path.join(REPO, f)
                                                     for f in files],
                            config_file=False)
    seams.install()
    t0 = time.time()
    outcomes = {'ok': 0, 'reject': 0, 'violation': 0}
    cov.start()
    try:
        for r in range(runs):
            plan, ctx, (kind, val) = runner.one_run(prop, 'quick', seed, r)
            outcomes[kind] = outcomes.get(kind, 0) + 1
    finally:
        cov.stop()
    res = {}
    data = cov.get_data()
    for f in files:
        path = os.path.join(REPO, f)
        try:
            _, stmts, excl, missing, _ = cov.analysis2(path)
        except Exception as e:          # file never imported
            res[f] = {'error': str(e)}
            continue
        miss = set(missing)
        funcs = []
        for q, a, b in _functions(path):
            st = [l for l in stmts if a < l <= b]     # body, not the def line
            if not st:
                continue
            ms = [l for l in st if l in miss]
            funcs.append({'name': q, 'line': a, 'statements': len(st),
                          'missed': len(ms), 'missed_lines': ms[:40]})
        # totals over function bodies only: module- and class-level
        # statements run at import time, before the tracer is started
        body = set()
        for q, a, b in _functions(path):
            body.update(l for l in stmts if a < l <= b)
        res[f] = {'statements': len(body), 'missed': len(body & miss),
                  'functions': funcs}
    return prop, res, outcomes, time.time() - t0


def main(args):
    from . import runner
    runs = args.runs or 1500
    anchors = _anchors()
    props = sorted(runner.ENGINE_OF)
    only = os.environ.get('ODLSIM_PROPS')
    if only:
        props = [p for p in props if p in only.split(',')]
    jobs = [(p, runs, args.seed, anchors[p]) for p in props]
    ctx = multiprocessing.get_context('fork')
    out = {'runs_per_property': runs, 'batch_seed': args.seed,
           'measure': 'statement coverage (coverage.py line tracer) of the '
                      'anchor files of each property under the first K quick-'
                      'tier runs of that property; nested functions count '
                      'separately; docstring-only and never-imported code is '
                      'not a statement', 'properties': {}}
    with ProcessPoolExecutor(max_workers=len(jobs), mp_context=ctx) as ex:
        for prop, res, outcomes, wall in ex.map(_worker, jobs):
            tot = sum(v.get('statements', 0) for v in res.values())
            mis = sum(v.get('missed', 0) for v in res.values())
            cold = []
            partial = []
            for f, v in sorted(res.items()):
                for fn in v.get('functions', []):
                    if fn['missed'] == fn['statements']:
                        cold.append('{}:{}'.format(f, fn['name']))
                    elif fn['missed']:
                        partial.append({'where': '{}:{}'.format(f, fn['name']),
                                        'missed_lines': fn['missed_lines']})
            out['properties'][prop] = {
                'outcomes': outcomes, 'wall_s': round(wall, 1),
                'anchor_statements': tot, 'executed': tot - mis,
                'files': {f: {'statements': v.get('statements'),
                              'missed': v.get('missed')}
                          for f, v in res.items()},
                'functions_never_entered': cold,
                'functions_partially_executed': partial}
            print('{}: {} runs, {}/{} anchor statements executed ({:.1f}%), '
                  '{} functions never entered, {} partially; {:.0f}s'.format(
                      prop, runs, tot - mis, tot,
                      100.0 * (tot - mis) / max(tot, 1), len(cold),
                      len(partial), wall))
            sys.stdout.flush()
    path = os.path.join(VERIF, 'evidence', 'reach.json')
    with open(path, 'w') as f:
        json.dump(out, f, indent=1, sort_keys=True)
    print('written', path)
    return 0
