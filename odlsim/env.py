"""Process environment pinning.  Imported first by ./check.

Everything that could make two executions of the same seed differ for reasons
the simulator does not own is pinned here: hash randomisation, BLAS/OMP
threading, warnings, the import path (checks must run /repo's working tree).
"""
import os
import sys

REPO = os.environ.get('ODLSIM_REPO', '/repo')
VERIF = os.path.dirname(os.path.dirname(os.path.abspath(__file__)))

_PINNED = {
    'OMP_NUM_THREADS': '1',
    'OPENBLAS_NUM_THREADS': '1',
    'MKL_NUM_THREADS': '1',
    'NUMEXPR_NUM_THREADS': '1',
    'PYTHONDONTWRITEBYTECODE': '1',
    'PYTHONWARNINGS': 'ignore',
}


def pin(reexec=True):
    """Pin the environment; re-exec once if PYTHONHASHSEED is not fixed."""
    changed = False
    for k, v in _PINNED.items():
        if os.environ.get(k) != v and not (
                k.endswith('_THREADS') and os.environ.get('ODLSIM_BLAS_THREADS')):
            os.environ[k] = v
            changed = True
    if os.environ.get('ODLSIM_BLAS_THREADS'):
        for k in ('OMP_NUM_THREADS', 'OPENBLAS_NUM_THREADS', 'MKL_NUM_THREADS'):
            if os.environ.get(k) != os.environ['ODLSIM_BLAS_THREADS']:
                os.environ[k] = os.environ['ODLSIM_BLAS_THREADS']
                changed = True
    if 'PYTHONHASHSEED' not in os.environ:
        os.environ['PYTHONHASHSEED'] = '0'
        changed = True
    if changed and reexec and 'numpy' in sys.modules:
        # too late to pin BLAS threads in this interpreter
        os.execve(sys.executable, [sys.executable] + sys.argv, os.environ)
    if os.environ.get('ODLSIM_REEXEC') != '1' and reexec and changed:
        os.environ['ODLSIM_REEXEC'] = '1'
        os.execve(sys.executable, [sys.executable] + sys.argv, os.environ)
    if REPO not in sys.path[:1]:
        sys.path.insert(0, REPO)


def assert_repo_odl():
    import odl
    here = os.path.realpath(os.path.dirname(odl.__file__))
    want = os.path.realpath(os.path.join(REPO, 'odl'))
    if here != want:
        raise RuntimeError('odl imported from {} but checks must run {}'
                           ''.format(here, want))
    return odl
