"""Recipe table for callsim: one seeded constructor per concrete Operator /
Functional class reachable from the odl namespace, plus derived instances
(.adjoint, .inverse, .derivative(x), .gradient, .proximal(s),
.convex_conj.proximal(s)) and expression nodes.

A recipe is `fn(cfg, rng)`: options missing from `cfg` are drawn from `rng`
(generation) and stored; with rng=None the cfg must be complete (replay).
It returns the odl operator.  Data comes from np_rng(cfg['seed']).
"""
import numpy as np

from .core import np_rng, Reject, HarnessError
from . import spaces as SP

RECIPES = {}


def odl():
    import odl as _odl
    return _odl


def recipe(name, c10=False, fam='misc', weight=1.0):
    def deco(fn):
        RECIPES[name] = {'fn': fn, 'c10': c10, 'fam': fam, 'weight': weight}
        return fn
    return deco


def opt(cfg, rng, key, choices):
    if key not in cfg:
        if rng is None:
            raise HarnessError('incomplete recipe cfg: missing ' + key)
        cfg[key] = rng.choice(list(choices))
    return cfg[key]


def optf(cfg, rng, key, fn):
    if key not in cfg:
        if rng is None:
            raise HarnessError('incomplete recipe cfg: missing ' + key)
        cfg[key] = fn(rng)
    return cfg[key]


def space(cfg, rng, key='S', want='real', **kw):
    sc = optf(cfg, rng, key, lambda r: SP.gen_space(r, want, **kw))
    return SP.build_space(sc)


def data(cfg, *salt):
    return np_rng('recipe', cfg['seed'], *salt)


def build(cfg, rng=None):
    """Build the operator of a (possibly derived) recipe config."""
    r = RECIPES.get(cfg['recipe'])
    if r is None:
        raise HarnessError('unknown recipe ' + str(cfg['recipe']))
    if 'seed' not in cfg:
        if rng is None:
            raise HarnessError('no seed')
        cfg['seed'] = rng.getrandbits(32)
    o = odl()
    try:
        op = r['fn'](cfg, rng)
        sib = getattr(op, '_sim_sibling', None)
        for d in cfg.get('derive', []):
            op = derive(op, d, cfg)
        if sib is not None and op is not None:
            try:
                op._sim_sibling = sib
            except Exception:
                pass
    except (Reject, HarnessError):
        raise
    except (o.OpNotImplementedError, NotImplementedError) as e:
        raise Reject('not implemented: ' + str(e)[:80])
    except (ValueError, TypeError, o.OpTypeError) as e:
        # constructor rejected the drawn option combination
        raise Reject('rejected_config: {}: {}'.format(type(e).__name__,
                                                      str(e)[:120]))
    except Exception as e:
        # construction / derivation failed inside odl with an unexpected
        # exception type: not a statement about *calls* (C03/C10); counted
        # by the engine under probe 'build-error'
        raise Reject('build-error: {}: {}'.format(type(e).__name__,
                                                  str(e)[:120]))
    if op is None or not hasattr(op, 'domain'):
        raise Reject('build-error: derivation returned {!r:.40}'.format(op))
    return op


def derive(op, d, cfg):
    kind = d[0]
    g = data(cfg, 'derive', kind)
    if kind == 'adjoint':
        return op.adjoint
    if kind == 'inverse':
        return op.inverse
    if kind == 'derivative':
        return op.derivative(SP.rand_elem(op.domain, g, positive=d[1]))
    if kind == 'gradient':
        return op.gradient
    if kind == 'proximal':
        return op.proximal(d[1])
    if kind == 'cc':
        return op.convex_conj
    if kind == 'proximal_elem':
        return op.proximal(SP.rand_elem(op.domain, g, positive=True))
    raise HarnessError(kind)


# ==========================================================================
# default_ops
# ==========================================================================

@recipe('Identity', c10=True, fam='default')
def _identity(cfg, rng):
    return odl().IdentityOperator(space(cfg, rng, want='any',
                                        allow_product=True))


@recipe('Scaling', c10=True, fam='default')
def _scaling(cfg, rng):
    S = space(cfg, rng, want='any', allow_product=True)
    c = opt(cfg, rng, 'c', [0.0, 1.0, -1.0, 2.5, -0.5, 1e-3])
    return odl().ScalingOperator(S, c)


@recipe('Zero', c10=True, fam='default')
def _zero(cfg, rng):
    S = space(cfg, rng, want='any', allow_product=True)
    if opt(cfg, rng, 'other_range', [False, False, True]):
        R = space(cfg, rng, 'R', want='real')
        return odl().ZeroOperator(S, R)
    return odl().ZeroOperator(S)


@recipe('Constant', c10=True, fam='default')
def _constant(cfg, rng):
    S = space(cfg, rng, want='any', allow_product=True)
    if opt(cfg, rng, 'other_domain', [False, False, True]):
        D = space(cfg, rng, 'D', want='real')
        return odl().ConstantOperator(SP.rand_elem(S, data(cfg)), domain=D)
    return odl().ConstantOperator(SP.rand_elem(S, data(cfg)))


@recipe('LinComb', c10=True, fam='default')
def _lincomb(cfg, rng):
    S = space(cfg, rng, want='any')
    a = opt(cfg, rng, 'a', [0.0, 1.0, -1.0, 2.5])
    b = opt(cfg, rng, 'b', [0.0, 1.0, -1.0, -0.75])
    return odl().LinCombOperator(S, a, b)


@recipe('Multiply', c10=True, fam='default')
def _multiply(cfg, rng):
    o = odl()
    S = space(cfg, rng, want='any')
    mode = opt(cfg, rng, 'mode', ['elem', 'elem', 'scalar', 'field_dom'])
    g = data(cfg)
    if mode == 'elem':
        return o.MultiplyOperator(SP.rand_elem(S, g))
    if mode == 'scalar':
        return o.MultiplyOperator(2.5, domain=S, range=S)
    return o.MultiplyOperator(SP.rand_elem(S, g), domain=S.field)


@recipe('Power', fam='default')
def _power(cfg, rng):
    S = space(cfg, rng, want='real')
    p = opt(cfg, rng, 'p', [0, 1, 2, 3, 0.5, -1])
    cfg['positive'] = True
    return odl().PowerOperator(S, p)


@recipe('InnerProduct', fam='default')
def _innerprod(cfg, rng):
    S = space(cfg, rng, want='any', allow_product=True)
    return odl().InnerProductOperator(SP.rand_elem(S, data(cfg)))


@recipe('Norm', fam='default')
def _norm(cfg, rng):
    return odl().NormOperator(space(cfg, rng, want='any', allow_product=True))


@recipe('Dist', fam='default')
def _dist(cfg, rng):
    S = space(cfg, rng, want='any', allow_product=True)
    return odl().DistOperator(SP.rand_elem(S, data(cfg)))


@recipe('RealPart', fam='default')
def _real(cfg, rng):
    return odl().RealPart(space(cfg, rng, want='any'))


@recipe('ImagPart', fam='default')
def _imag(cfg, rng):
    return odl().ImagPart(space(cfg, rng, want='any'))


@recipe('ComplexEmbedding', fam='default')
def _cembed(cfg, rng):
    S = space(cfg, rng, want='any')
    c = opt(cfg, rng, 'c', [1.0, 2.0, '1j', '1+2j'])
    return odl().ComplexEmbedding(S, complex(c) if isinstance(c, str) else c)


@recipe('ComplexModulus', fam='default')
def _cmod(cfg, rng):
    return odl().ComplexModulus(space(cfg, rng, want='any'))


@recipe('ComplexModulusSquared', fam='default')
def _cmodsq(cfg, rng):
    return odl().ComplexModulusSquared(space(cfg, rng, want='any'))


# ==========================================================================
# tensor_ops
# ==========================================================================

@recipe('Matrix', fam='tensor', weight=2)
def _matrix(cfg, rng):
    o = odl()
    mode = opt(cfg, rng, 'mode', ['dense', 'dense', 'sparse', 'axis',
                                  'complex', 'f32', 'axis_sparse',
                                  'widerange', 'axis3d'])
    g = data(cfg)
    m = opt(cfg, rng, 'm', [1, 2, 3, 5])
    n = opt(cfg, rng, 'n', [1, 2, 4, 6])
    if mode == 'dense':
        return o.MatrixOperator(g.standard_normal((m, n)))
    if mode == 'f32':
        return o.MatrixOperator(g.standard_normal((m, n)).astype('float32'))
    if mode == 'complex':
        return o.MatrixOperator(g.standard_normal((m, n)) +
                                1j * g.standard_normal((m, n)))
    if mode == 'sparse':
        import scipy.sparse
        A = g.standard_normal((m, n)) * (g.uniform(0, 1, (m, n)) < 0.5)
        return o.MatrixOperator(scipy.sparse.coo_matrix(A))
    if mode == 'widerange':
        # a range whose dtype is wider than that of matrix.dot(x): accepted
        # by the constructor, the result is cast
        how = opt(cfg, rng, 'wide', ['real_to_complex', 'f32_to_f64',
                                     'f32mat_f64dom'])
        A = g.standard_normal((m, n))
        if how == 'real_to_complex':
            return o.MatrixOperator(A, domain=o.rn(n), range=o.cn(m))
        if how == 'f32_to_f64':
            return o.MatrixOperator(A.astype('float32'),
                                    domain=o.rn(n, dtype='float32'),
                                    range=o.rn(m))
        return o.MatrixOperator(A.astype('float32'), domain=o.rn(n))
    if mode == 'axis3d':
        axis = opt(cfg, rng, 'axis3', [0, 0, 1, 2])
        shp = [2, 3, 2]
        shp[axis] = n
        return o.MatrixOperator(g.standard_normal((m, n)),
                                domain=o.tensor_space(tuple(shp)), axis=axis)
    axis = opt(cfg, rng, 'axis', [0, 1])
    dom = o.tensor_space((n, 3) if axis == 0 else (2, n))
    A = g.standard_normal((m, n))
    if mode == 'axis_sparse':
        import scipy.sparse
        A = scipy.sparse.csr_matrix(A * (g.uniform(0, 1, (m, n)) < 0.6))
    return o.MatrixOperator(A, domain=dom, axis=axis)


@recipe('Flattening', fam='tensor')
def _flatten(cfg, rng):
    S = space(cfg, rng, want='any')
    order = opt(cfg, rng, 'order', ['C', 'F'])
    return odl().FlatteningOperator(S, order=order)


def _sampling_points(cfg, rng, S):
    nd = len(S.shape)
    npts = opt(cfg, rng, 'npts', [1, 2, 4])
    rep = opt(cfg, rng, 'repeat', [False, True])
    # structured index patterns, not only random ones: an ascending /
    # descending contiguous run along the last axis, all points in order
    pattern = opt(cfg, rng, 'pattern', ['random', 'random', 'run', 'rev',
                                        'all'])
    g = data(cfg, 'pts')
    pts = [list(int(v) for v in g.integers(0, s, npts)) for s in S.shape]
    if pattern in ('run', 'rev'):
        n_last = S.shape[-1]
        length = min(n_last, max(2, npts))
        start = int(g.integers(0, n_last - length + 1))
        run = list(range(start, start + length))
        if pattern == 'rev':
            run = run[::-1]
        pts = [[int(p[0])] * length for p in pts[:-1]] + [run]
        rep = False
    elif pattern == 'all':
        import itertools
        allp = list(itertools.product(*[range(s_) for s_ in S.shape]))[:12]
        pts = [[int(p[a]) for p in allp] for a in range(nd)]
        rep = False
    npts = len(pts[0])
    if rep and npts > 1:
        for p in pts:
            p[-1] = p[0]
    if nd == 1:
        return pts[0] if opt(cfg, rng, 'flat', [True, False]) else pts
    return pts


@recipe('Sampling', fam='tensor', weight=3)
def _sampling(cfg, rng):
    S = space(cfg, rng, want='real')
    variant = opt(cfg, rng, 'variant', ['point_eval', 'integrate'])
    return odl().SamplingOperator(S, _sampling_points(cfg, rng, S),
                                  variant=variant)


@recipe('WeightedSumSampling', fam='tensor', weight=2)
def _wsampling(cfg, rng):
    S = space(cfg, rng, want='real')
    variant = opt(cfg, rng, 'variant', ['char_fun', 'dirac'])
    return odl().WeightedSumSamplingOperator(S, _sampling_points(cfg, rng, S),
                                             variant=variant)


@recipe('PointwiseNorm', fam='tensor')
def _pwnorm(cfg, rng):
    V = space(cfg, rng, want='vf')
    p = opt(cfg, rng, 'p', [None, 1, 2, float('inf'), 1.5])
    w = opt(cfg, rng, 'w', [None, None, 'list'])
    wt = None if w is None else [1.0 + i for i in range(len(V))]
    return odl().PointwiseNorm(V, exponent=p, weighting=wt)


@recipe('PointwiseInner', fam='tensor')
def _pwinner(cfg, rng):
    V = space(cfg, rng, want='vf')
    w = opt(cfg, rng, 'w', [None, None, 'list'])
    wt = None if w is None else [1.0 + i for i in range(len(V))]
    return odl().PointwiseInner(V, SP.rand_elem(V, data(cfg)), weighting=wt)


@recipe('PointwiseInnerAdjoint', fam='tensor')
def _pwinner_adj(cfg, rng):
    return _pwinner(cfg, rng).adjoint


@recipe('PointwiseSum', fam='tensor')
def _pwsum(cfg, rng):
    V = space(cfg, rng, want='vf')
    return odl().PointwiseSum(V)


# ==========================================================================
# pspace_ops
# ==========================================================================

def _leaf(cfg, rng, key, S, cache=None):
    """Small linear leaf operator S -> S for product-space combinators.
    With a `cache` and the option `share`, leaves of the same kind are the
    very same object (BroadcastOperator(A, A), a block matrix with one
    operator in several slots ...)."""
    o = odl()
    kind = opt(cfg, rng, key, ['id', 'scale', 'mult', 'zero', 'sum'])
    share = cache is not None and opt(cfg, rng, 'share', [False, False, True])
    if share and kind in cache:
        return cache[kind]
    if kind == 'id':
        op = o.IdentityOperator(S)
    elif kind == 'scale':
        op = o.ScalingOperator(S, 1.5)
    elif kind == 'zero':
        op = o.ZeroOperator(S)
    elif kind == 'sum':
        op = o.IdentityOperator(S) + o.MultiplyOperator(
            SP.rand_elem(S, data(cfg, key)))
    else:
        op = o.MultiplyOperator(SP.rand_elem(S, data(cfg, key)))
    if cache is not None:
        cache.setdefault(kind, op)
    return op


@recipe('ProductSpaceOperator', fam='pspace', weight=2)
def _pso(cfg, rng):
    o = odl()
    S = space(cfg, rng, want='real')
    nr = opt(cfg, rng, 'nr', [1, 2, 3])
    nc = opt(cfg, rng, 'nc', [1, 2, 3])
    rows = []
    cache = {}
    for i in range(nr):
        row = []
        for j in range(nc):
            if opt(cfg, rng, 'e%d%d' % (i, j), [True, True, False]):
                row.append(_leaf(cfg, rng, 'l%d%d' % (i, j), S, cache))
            else:
                row.append(None)
        rows.append(row)
    dom, ran = o.ProductSpace(S, nc), o.ProductSpace(S, nr)
    if opt(cfg, rng, 'build', ['lists', 'lists', 'coo_shuffled', 'coo_dup']) \
            != 'lists':
        # COO container with entries in shuffled order (documented as
        # allowed), optionally with a duplicate (i, j) entry (summed)
        from odl.util.sparse import COOMatrix
        ents = [(i, j, rows[i][j]) for i in range(nr) for j in range(nc)
                if rows[i][j] is not None]
        if not ents:
            raise Reject('empty operator matrix')
        if cfg['build'] == 'coo_dup':
            ents.append(ents[0])
        perm = data(cfg, 'coo').permutation(len(ents))
        ents = [ents[k] for k in perm]
        coo = COOMatrix([e[2] for e in ents],
                        ([e[0] for e in ents], [e[1] for e in ents]),
                        (nr, nc))
        return o.ProductSpaceOperator(coo, domain=dom, range=ran)
    return o.ProductSpaceOperator(rows, domain=dom, range=ran)


@recipe('ComponentProjection', fam='pspace')
def _cproj(cfg, rng):
    o = odl()
    S = space(cfg, rng, want='real')
    P = o.ProductSpace(S, 3)
    idx = opt(cfg, rng, 'idx', [0, 2, 'slice', 'list'])
    index = {'slice': slice(0, 2), 'list': [0, 2]}.get(idx, idx)
    return o.ComponentProjection(P, index)


@recipe('ComponentProjectionAdjoint', fam='pspace')
def _cprojadj(cfg, rng):
    o = odl()
    S = space(cfg, rng, want='real')
    P = o.ProductSpace(S, 3)
    idx = opt(cfg, rng, 'idx', [0, 2, 'slice', 'list'])
    index = {'slice': slice(0, 2), 'list': [0, 2]}.get(idx, idx)
    return o.ComponentProjectionAdjoint(P, index)


def _hetero_last(cfg, rng, ops, S, side):
    """With the option `hetero`, the last block maps to / from rn(S.size)
    instead of S, so that the product space is NOT a power space."""
    if len(ops) < 2 or not opt(cfg, rng, 'hetero', [False, False, True]):
        return ops
    o = odl()
    try:
        flat = o.FlatteningOperator(S)
        if flat.range == S:
            return ops
        if side == 'range':
            ops[-1] = flat * ops[-1]
        elif side == 'domain':
            ops[-1] = ops[-1] * flat.inverse
        else:
            ops[-1] = flat * ops[-1] * flat.inverse
    except Exception:
        pass
    return ops


@recipe('Broadcast', fam='pspace')
def _broadcast(cfg, rng):
    S = space(cfg, rng, want='real')
    n = opt(cfg, rng, 'n', [1, 2, 3])
    cache = {}
    ops = [_leaf(cfg, rng, 'l%d' % i, S, cache) for i in range(n)]
    return odl().BroadcastOperator(*_hetero_last(cfg, rng, ops, S, 'range'))


@recipe('Reduction', fam='pspace')
def _reduction(cfg, rng):
    S = space(cfg, rng, want='real')
    n = opt(cfg, rng, 'n', [1, 2, 3])
    cache = {}
    ops = [_leaf(cfg, rng, 'l%d' % i, S, cache) for i in range(n)]
    return odl().ReductionOperator(*_hetero_last(cfg, rng, ops, S, 'domain'))


@recipe('Diagonal', fam='pspace')
def _diagonal(cfg, rng):
    S = space(cfg, rng, want='real')
    n = opt(cfg, rng, 'n', [1, 2, 3])
    cache = {}
    ops = [_leaf(cfg, rng, 'l%d' % i, S, cache) for i in range(n)]
    return odl().DiagonalOperator(*_hetero_last(cfg, rng, ops, S, 'both'))


# ==========================================================================
# discretisation ops
# ==========================================================================

PAD_MODES = ['constant', 'periodic', 'symmetric', 'order0', 'order1',
             'order0_adjoint', 'order1_adjoint', 'symmetric_adjoint']


def _diff_opts(cfg, rng):
    return dict(method=opt(cfg, rng, 'method', ['forward', 'backward',
                                                'central']),
                pad_mode=opt(cfg, rng, 'pad_mode', PAD_MODES),
                pad_const=opt(cfg, rng, 'pad_const', [0, 0, 1.5]))


@recipe('PartialDerivative', fam='discr', weight=2)
def _pd(cfg, rng):
    S = space(cfg, rng, want='discr')
    ax = opt(cfg, rng, 'axis', [0, 0, -1])
    return odl().PartialDerivative(S, axis=ax % len(S.shape),
                                   **_diff_opts(cfg, rng))


@recipe('Gradient', fam='discr', weight=2)
def _grad(cfg, rng):
    S = space(cfg, rng, want='discr')
    return odl().Gradient(S, **_diff_opts(cfg, rng))


@recipe('Divergence', fam='discr', weight=2)
def _div(cfg, rng):
    S = space(cfg, rng, want='discr')
    return odl().Divergence(range=S, **_diff_opts(cfg, rng))


@recipe('Laplacian', fam='discr', weight=2)
def _lap(cfg, rng):
    S = space(cfg, rng, want='discr')
    kw = _diff_opts(cfg, rng)
    kw.pop('method')
    return odl().Laplacian(S, **kw)


@recipe('Resampling', fam='discr')
def _resampling(cfg, rng):
    o = odl()
    S = space(cfg, rng, want='rdiscr')
    fac = opt(cfg, rng, 'fac', [1, 2, 3])
    down = opt(cfg, rng, 'down', [False, True])
    interp = opt(cfg, rng, 'interp', ['nearest', 'linear'])
    shape2 = [s * fac for s in S.shape]
    R = o.uniform_discr(S.min_pt, S.max_pt, shape2)
    return o.Resampling(R, S, interp) if down else o.Resampling(S, R, interp)


@recipe('Resizing', fam='discr', weight=2)
def _resizing(cfg, rng):
    o = odl()
    S = space(cfg, rng, want='discr')
    deltas = optf(cfg, rng, 'deltas',
                  lambda r: [r.choice([-1, 0, 1, 2, 3]) for _ in S.shape])
    ran_shp = [max(1, s + d) for s, d in zip(S.shape, deltas)]
    pm = opt(cfg, rng, 'pad_mode', ['constant', 'periodic', 'symmetric',
                                    'order0', 'order1'])
    kw = {'pad_mode': pm}
    if pm == 'constant':
        kw['pad_const'] = opt(cfg, rng, 'pad_const', [0, 0, 2.0])
    if opt(cfg, rng, 'offset', [False, True]):
        kw['offset'] = [1 if d > 0 else 0 for d in deltas]
    return o.ResizingOperator(S, ran_shp=ran_shp, **kw)


# ==========================================================================
# transforms
# ==========================================================================

@recipe('DFT', fam='trafo', weight=2)
def _dft(cfg, rng):
    o = odl()
    nd = opt(cfg, rng, 'nd', [1, 2, 2, 3])
    shape = optf(cfg, rng, 'shape',
                 lambda r: [r.choice([1, 2, 3, 4, 5, 8]) for _ in range(nd)])
    dtype = opt(cfg, rng, 'dtype', ['float64', 'complex128', 'float32',
                                    'complex64'])
    S = o.uniform_discr([0.0] * nd, [float(n) for n in shape], shape,
                        dtype=dtype)
    kw = {'impl': opt(cfg, rng, 'impl', ['numpy', 'pyfftw'])}
    if np.dtype(dtype).kind == 'f':
        kw['halfcomplex'] = opt(cfg, rng, 'halfcomplex', [True, False])
    axes = optf(cfg, rng, 'axes', lambda r: sorted(
        r.sample(range(nd), r.randint(1, nd))))
    kw['axes'] = axes
    kw['sign'] = opt(cfg, rng, 'sign', ['-', '-', '+'])
    return o.trafos.DiscreteFourierTransform(S, **kw)


@recipe('FT', fam='trafo', weight=2)
def _ft(cfg, rng):
    o = odl()
    nd = opt(cfg, rng, 'nd', [1, 2, 2])
    shape = optf(cfg, rng, 'shape',
                 lambda r: [r.choice([2, 3, 4, 5, 8]) for _ in range(nd)])
    dtype = opt(cfg, rng, 'dtype', ['float64', 'complex128', 'float32'])
    S = o.uniform_discr([-1.0] * nd, [1.0] * nd, shape, dtype=dtype)
    kw = {'impl': opt(cfg, rng, 'impl', ['numpy', 'pyfftw'])}
    if np.dtype(dtype).kind == 'f':
        kw['halfcomplex'] = opt(cfg, rng, 'halfcomplex', [True, False])
    kw['shift'] = optf(cfg, rng, 'shift',
                       lambda r: [r.random() < 0.5 for _ in range(nd)])
    kw['sign'] = opt(cfg, rng, 'sign', ['-', '-', '+'])
    return o.trafos.FourierTransform(S, **kw)


@recipe('Wavelet', fam='trafo')
def _wavelet(cfg, rng):
    o = odl()
    nd = opt(cfg, rng, 'nd', [1, 2])
    n = opt(cfg, rng, 'n', [4, 8, 7, 16])
    S = o.uniform_discr([0.0] * nd, [1.0] * nd, [n] * nd)
    return o.trafos.WaveletTransform(
        S, wavelet=opt(cfg, rng, 'wavelet', ['haar', 'db2', 'sym3']),
        nlevels=opt(cfg, rng, 'nlevels', [1, 2]),
        pad_mode=opt(cfg, rng, 'pad_mode', ['constant', 'periodization',
                                            'symmetric', 'periodic']))


# ==========================================================================
# deformation
# ==========================================================================

@recipe('LinDeformFixedTempl', fam='deform')
def _ldt(cfg, rng):
    o = odl()
    nd = opt(cfg, rng, 'nd', [1, 2])
    n = opt(cfg, rng, 'n', [3, 5])
    S = o.uniform_discr([0.0] * nd, [1.0] * nd, [n] * nd)
    return o.deform.LinDeformFixedTempl(
        SP.rand_elem(S, data(cfg)),
        interp=opt(cfg, rng, 'interp', ['linear', 'nearest']))


@recipe('LinDeformFixedDisp', fam='deform')
def _ldd(cfg, rng):
    o = odl()
    nd = opt(cfg, rng, 'nd', [1, 2])
    n = opt(cfg, rng, 'n', [3, 5])
    S = o.uniform_discr([0.0] * nd, [1.0] * nd, [n] * nd)
    disp = SP.rand_elem(S.tangent_bundle, data(cfg), 0.1)
    return o.deform.LinDeformFixedDisp(
        disp, interp=opt(cfg, rng, 'interp', ['linear', 'nearest']))


# ==========================================================================
# tomography (scikit-image back-end only in this sandbox)
# ==========================================================================

@recipe('RayTransform', fam='tomo', weight=0.6)
def _ray(cfg, rng):
    o = odl()
    n = opt(cfg, rng, 'n', [6, 8])
    S = o.uniform_discr([-1, -1], [1, 1], [n, n],
                        dtype=opt(cfg, rng, 'dtype', ['float64', 'float64',
                                                      'complex128',
                                                      'float32']))
    geom = o.tomo.parallel_beam_geometry(S, num_angles=opt(cfg, rng, 'na',
                                                           [3, 5]))
    return o.tomo.RayTransform(S, geom, impl='skimage')


# ==========================================================================
# ufunc operators
# ==========================================================================

def _ufunc_names():
    from odl.util.ufuncs import UFUNCS
    return [(n, nin, nout) for n, nin, nout, _ in UFUNCS]


@recipe('ufunc', fam='ufunc', weight=5)
def _ufunc(cfg, rng):
    o = odl()
    names = _ufunc_names()
    name = optf(cfg, rng, 'name', lambda r: r.choice(names)[0])
    nin = [n for n in names if n[0] == name][0][1]
    int_only = ('shift' in name or 'bitwise' in name or name == 'invert')
    if int_only:
        S = space(cfg, rng, want='int')
    else:
        S = space(cfg, rng, want=opt(cfg, rng, 'want', ['real', 'real', 'int']))
    cfg['positive'] = opt(cfg, rng, 'pos', [False, True])
    return getattr(o.ufunc_ops, name)(S)


@recipe('ufunc_functional', fam='ufunc', weight=2)
def _ufunc_func(cfg, rng):
    o = odl()
    names = [n for n in _ufunc_names() if n[1] == 1 and n[2] == 1 and not (
        'shift' in n[0] or 'bitwise' in n[0] or n[0] == 'invert')]
    name = optf(cfg, rng, 'name', lambda r: r.choice(names)[0])
    cfg['positive'] = opt(cfg, rng, 'pos', [False, True])
    return getattr(o.ufunc_ops, name)()


# ==========================================================================
# functionals
# ==========================================================================

def _fspace(cfg, rng, want='real', product=False):
    return space(cfg, rng, want=want, allow_product=product, maxsize=8)


def _functional(cfg, rng):
    """Base functional by family name cfg['F']."""
    o = odl()
    F = o.solvers
    fam = cfg['F']
    g = data(cfg, 'F')
    if fam in ('GroupL1Norm', 'IndicatorGroupL1UnitBall', 'HuberVF'):
        V = space(cfg, rng, want='vf')
        if fam == 'GroupL1Norm':
            return F.GroupL1Norm(V, exponent=opt(cfg, rng, 'gexp',
                                                 [None, 1, 2]))
        if fam == 'HuberVF':
            return F.Huber(V, opt(cfg, rng, 'gamma', [0.1, 1.0]))
        return F.IndicatorGroupL1UnitBall(V, exponent=opt(cfg, rng, 'gexp',
                                                          [None, 2]))
    if fam in ('NuclearNorm', 'IndicatorNuclearNormUnitBall'):
        S = space(cfg, rng, want='real')
        V = o.ProductSpace(o.ProductSpace(S, 2), 2)
        kw = dict(outer_exp=opt(cfg, rng, 'oexp', [1, 2, float('inf')]),
                  singular_vector_exp=opt(cfg, rng, 'sexp',
                                          [1, 2, float('inf')]))
        return getattr(F, fam)(V, **kw)
    if fam in ('ScalingFunctional', 'IdentityFunctional'):
        fld = o.RealNumbers()
        if fam == 'ScalingFunctional':
            return F.ScalingFunctional(fld, 2.5)
        return F.IdentityFunctional(fld)
    if fam == 'SeparableSum':
        S = _fspace(cfg, rng)
        mode = opt(cfg, rng, 'ssmode', ['power', 'list'])
        if mode == 'power':
            return F.SeparableSum(F.L1Norm(S), opt(cfg, rng, 'ssn', [1, 2, 3]))
        return F.SeparableSum(F.L1Norm(S), F.L2NormSquared(S),
                              F.IndicatorBox(S, -1, 1))
    S = _fspace(cfg, rng)
    if fam == 'ZeroFunctional':
        return F.ZeroFunctional(S)
    if fam == 'ConstantFunctional':
        return F.ConstantFunctional(S, 1.5)
    if fam == 'LpNorm':
        return F.LpNorm(S, opt(cfg, rng, 'p', [1, 2, float('inf'), 1.5, 3]))
    if fam == 'L1Norm':
        return F.L1Norm(S)
    if fam == 'L2Norm':
        return F.L2Norm(S)
    if fam == 'L2NormSquared':
        return F.L2NormSquared(S)
    if fam == 'Huber':
        return F.Huber(S, opt(cfg, rng, 'gamma', [0.0, 0.1, 1.0]))
    if fam == 'IndicatorZero':
        return F.IndicatorZero(S, opt(cfg, rng, 'iz_const', [0, 1.5]))
    if fam == 'IndicatorBox':
        return F.IndicatorBox(S, opt(cfg, rng, 'lo', [None, -1, 0]),
                              opt(cfg, rng, 'hi', [None, 1, 2]))
    if fam == 'IndicatorNonnegativity':
        return F.IndicatorNonnegativity(S)
    if fam == 'IndicatorLpUnitBall':
        return F.IndicatorLpUnitBall(S, opt(cfg, rng, 'p',
                                            [1, 2, float('inf')]))
    if fam == 'IndicatorSimplex':
        return F.IndicatorSimplex(S, opt(cfg, rng, 'diam', [1, 2.5]))
    if fam == 'IndicatorSumConstraint':
        return F.IndicatorSumConstraint(S, opt(cfg, rng, 'sumv', [1, 2.5]))
    if fam in ('KullbackLeibler', 'KullbackLeiblerCrossEntropy'):
        cfg['positive'] = True
        prior = (SP.rand_elem(S, g, positive=True)
                 if opt(cfg, rng, 'prior', [True, False]) else None)
        return getattr(F, fam)(S, prior=prior)
    if fam in ('KullbackLeiblerConvexConj',
               'KullbackLeiblerCrossEntropyConvexConj'):
        prior = (SP.rand_elem(S, g, positive=True)
                 if opt(cfg, rng, 'prior', [True, False]) else None)
        base = 'KullbackLeibler' if fam == 'KullbackLeiblerConvexConj' else \
            'KullbackLeiblerCrossEntropy'
        cfg['scale'] = 0.3
        return getattr(F, base)(S, prior=prior).convex_conj
    if fam == 'QuadraticForm':
        mode = opt(cfg, rng, 'qmode', ['op', 'vec', 'both'])
        A = o.ScalingOperator(S, 2.0) if mode != 'vec' else None
        v = SP.rand_elem(S, g) if mode != 'op' else None
        return F.QuadraticForm(operator=A, vector=v, constant=0.5)
    if fam == 'MoreauEnvelope':
        return F.MoreauEnvelope(F.L1Norm(S), sigma=opt(cfg, rng, 'sig',
                                                       [1.0, 0.3]))
    if fam == 'Rosenbrock':
        S2 = o.rn(opt(cfg, rng, 'rn', [2, 3, 4]))
        return F.RosenbrockFunctional(S2, scale=opt(cfg, rng, 'rscale',
                                                    [1.0, 100.0]))
    raise HarnessError('functional family ' + fam)


BASE_FUNCTIONALS = [
    'ZeroFunctional', 'ConstantFunctional', 'ScalingFunctional',
    'IdentityFunctional', 'LpNorm', 'L1Norm', 'GroupL1Norm', 'L2Norm',
    'L2NormSquared', 'Huber', 'HuberVF', 'NuclearNorm', 'IndicatorZero',
    'IndicatorBox', 'IndicatorNonnegativity', 'IndicatorLpUnitBall',
    'IndicatorGroupL1UnitBall', 'IndicatorNuclearNormUnitBall',
    'IndicatorSimplex', 'IndicatorSumConstraint', 'KullbackLeibler',
    'KullbackLeiblerConvexConj', 'KullbackLeiblerCrossEntropy',
    'KullbackLeiblerCrossEntropyConvexConj', 'QuadraticForm', 'SeparableSum',
    'MoreauEnvelope', 'Rosenbrock']

# functionals with a proximal, used to derive proximal operators
PROX_FUNCTIONALS = [
    'ZeroFunctional', 'ConstantFunctional', 'LpNorm', 'L1Norm', 'GroupL1Norm',
    'L2Norm', 'L2NormSquared', 'Huber', 'HuberVF', 'NuclearNorm',
    'IndicatorZero', 'IndicatorBox', 'IndicatorNonnegativity',
    'IndicatorLpUnitBall', 'IndicatorGroupL1UnitBall',
    'IndicatorNuclearNormUnitBall', 'IndicatorSimplex',
    'IndicatorSumConstraint', 'KullbackLeibler', 'KullbackLeiblerConvexConj',
    'KullbackLeiblerCrossEntropy', 'KullbackLeiblerCrossEntropyConvexConj',
    'SeparableSum']


def _derived_functional(cfg, rng, f):
    """Wrap f by one functional calculus rule cfg['wrap']."""
    o = odl()
    F = o.solvers
    w = cfg['wrap']
    S = f.domain
    g = data(cfg, 'wrap')
    if isinstance(S, o.set.Field) and w not in ('none', 'left_scalar',
                                                'right_scalar', 'scalar_sum'):
        # the other rules combine f with norms, which need a vector space
        raise Reject('wrap not applicable on a field')
    if w == 'none':
        return f
    if w == 'left_scalar':
        return opt(cfg, rng, 'ls', [2.0, 0.5, 0.0]) * f
    if w == 'right_scalar':
        return f * opt(cfg, rng, 'rs', [2.0, -0.5, 0.0])
    if w == 'translation':
        return f.translated(SP.rand_elem(S, g, positive=cfg.get('positive',
                                                                False)) * 0.3)
    if w == 'scalar_sum':
        return f + 1.5
    if w == 'sum':
        return f + F.L2NormSquared(S)
    if w == 'right_vector':
        return f * SP.rand_elem(S, g)
    if w == 'quadpert':
        return F.FunctionalQuadraticPerturb(
            f, quadratic_coeff=opt(cfg, rng, 'qc', [0.0, 0.5, 2.0]),
            linear_term=(SP.rand_elem(S, g)
                         if opt(cfg, rng, 'qlin', [True, False]) else None),
            constant=opt(cfg, rng, 'qconst', [0, 1.0]))
    if w == 'comp':
        return f * o.ScalingOperator(S, 2.0)
    if w == 'product':
        return F.FunctionalProduct(f, F.L2NormSquared(S))
    if w == 'quotient':
        return F.FunctionalQuotient(f, F.L2NormSquared(S) + 1.0)
    if w == 'bregman':
        pt = SP.rand_elem(S, g, positive=cfg.get('positive', False))
        return F.BregmanDistance(f, pt, f.gradient(pt))
    if w == 'infconv':
        return F.InfimalConvolution(f, F.L2NormSquared(S))
    if w == 'default_cc':
        return FunctionalDefaultCC(f)
    if w == 'moreau':
        return F.MoreauEnvelope(f, sigma=0.7)
    if w == 'cc':
        return f.convex_conj
    if w == 'sepsum':
        return F.SeparableSum(f, opt(cfg, rng, 'sepn', [1, 2]))
    raise HarnessError('wrap ' + w)


def FunctionalDefaultCC(f):
    from odl.solvers.functional.functional import (
        FunctionalDefaultConvexConjugate)
    return FunctionalDefaultConvexConjugate(f)


WRAPS = ['none', 'none', 'left_scalar', 'right_scalar', 'translation',
         'scalar_sum', 'sum', 'right_vector', 'quadpert', 'comp', 'product',
         'quotient', 'bregman', 'infconv', 'default_cc', 'moreau', 'cc',
         'sepsum']
PROX_WRAPS = ['none', 'none', 'none', 'left_scalar', 'right_scalar',
              'translation', 'scalar_sum', 'quadpert', 'cc', 'sepsum',
              'default_cc']


@recipe('functional', fam='functional', weight=6)
def _func(cfg, rng):
    opt(cfg, rng, 'F', BASE_FUNCTIONALS)
    opt(cfg, rng, 'wrap', WRAPS)
    return _derived_functional(cfg, rng, _functional(cfg, rng))


@recipe('functional_gradient', fam='functional-derived', weight=3)
def _func_grad(cfg, rng):
    opt(cfg, rng, 'F', BASE_FUNCTIONALS)
    opt(cfg, rng, 'wrap', WRAPS)
    return _derived_functional(cfg, rng, _functional(cfg, rng)).gradient


@recipe('functional_derivative', fam='functional-derived', weight=1)
def _func_deriv(cfg, rng):
    opt(cfg, rng, 'F', BASE_FUNCTIONALS)
    opt(cfg, rng, 'wrap', WRAPS)
    f = _derived_functional(cfg, rng, _functional(cfg, rng))
    return f.derivative(SP.rand_elem(f.domain, data(cfg, 'pt'),
                                     positive=cfg.get('positive', False)))


def _sigma(cfg, rng, f):
    kind = opt(cfg, rng, 'sigma', ['scalar', 'scalar', 'scalar', 'elem'])
    if kind == 'scalar':
        return opt(cfg, rng, 'sigma_val', [1.0, 0.3, 2.5])
    # element-valued step: documented for L1, L2^2, KL* -- others reject
    return SP.rand_elem(f.domain, data(cfg, 'sigma'), positive=True)


@recipe('functional_proximal', c10=True, fam='proximal', weight=8)
def _func_prox(cfg, rng):
    opt(cfg, rng, 'F', PROX_FUNCTIONALS)
    opt(cfg, rng, 'wrap', PROX_WRAPS)
    f = _derived_functional(cfg, rng, _functional(cfg, rng))
    return _with_sibling(cfg, rng, f.proximal, _sigma(cfg, rng, f))


@recipe('functional_cc_proximal', c10=True, fam='proximal', weight=6)
def _func_ccprox(cfg, rng):
    opt(cfg, rng, 'F', PROX_FUNCTIONALS)
    opt(cfg, rng, 'wrap', PROX_WRAPS)
    f = _derived_functional(cfg, rng, _functional(cfg, rng))
    return _with_sibling(cfg, rng, f.convex_conj.proximal,
                         _sigma(cfg, rng, f))


@recipe('NumericalGradient', fam='functional-derived')
def _numgrad(cfg, rng):
    o = odl()
    S = space(cfg, rng, want='real', maxsize=5)
    f = o.solvers.L2NormSquared(S)
    return o.solvers.NumericalGradient(
        f, method=opt(cfg, rng, 'method', ['forward', 'backward', 'central']))


@recipe('NumericalDerivative', fam='functional-derived')
def _numderiv(cfg, rng):
    o = odl()
    S = space(cfg, rng, want='real', maxsize=5)
    A = o.ufunc_ops.sin(S)
    return o.solvers.NumericalDerivative(
        A, SP.rand_elem(S, data(cfg)),
        method=opt(cfg, rng, 'method', ['forward', 'backward', 'central']))


# ==========================================================================
# proximal factories called directly
# ==========================================================================

def _g_or_none(cfg, rng, S, positive=False):
    if opt(cfg, rng, 'with_g', [False, True]):
        return SP.rand_elem(S, data(cfg, 'g'), positive=positive)
    return None


@recipe('prox_factory', c10=True, fam='proximal', weight=8)
def _prox_factory(cfg, rng):
    from odl.solvers.nonsmooth import proximal_operators as PO
    o = odl()
    name = opt(cfg, rng, 'factory', [
        'proximal_const_func', 'proximal_box_constraint',
        'proximal_nonnegativity', 'proximal_l1', 'proximal_convex_conj_l1',
        'proximal_l2', 'proximal_convex_conj_l2', 'proximal_linfty',
        'proximal_convex_conj_linfty', 'proximal_l2_squared',
        'proximal_convex_conj_l2_squared', 'proximal_l1_l2',
        'proximal_convex_conj_l1_l2', 'proximal_convex_conj_kl',
        'proximal_convex_conj_kl_cross_entropy', 'proximal_huber',
        'proximal_translation', 'proximal_arg_scaling',
        'proximal_quadratic_perturbation', 'proximal_composition',
        'proximal_convex_conj', 'combine_proximals'])
    lam = opt(cfg, rng, 'lam', [1, 0.5, 2.0])
    if name in ('proximal_l1_l2', 'proximal_convex_conj_l1_l2'):
        S = space(cfg, rng, want='vf')
    elif name in ('proximal_convex_conj_l1',):
        S = space(cfg, rng, want=opt(cfg, rng, 'l1want', ['real', 'vf']))
    else:
        S = space(cfg, rng, want='real', maxsize=8)
    sigma = opt(cfg, rng, 'sigma_val', [1.0, 0.3, 2.5])
    if name in ('proximal_const_func', 'proximal_nonnegativity',
                'proximal_linfty', 'proximal_convex_conj_linfty'):
        fac = getattr(PO, name)(S)
    elif name == 'proximal_box_constraint':
        lo = opt(cfg, rng, 'lo', [None, -1, 0, 'elem'])
        hi = opt(cfg, rng, 'hi', [None, 1, 2, 'elem'])
        if lo == 'elem':
            lo = -SP.rand_elem(S, data(cfg, 'lo'), positive=True)
        if hi == 'elem':
            hi = SP.rand_elem(S, data(cfg, 'hi'), positive=True)
        fac = PO.proximal_box_constraint(S, lower=lo, upper=hi)
    elif name == 'proximal_huber':
        fac = PO.proximal_huber(S, gamma=opt(cfg, rng, 'gamma', [0.1, 1.0]))
    elif name in ('proximal_convex_conj_kl',
                  'proximal_convex_conj_kl_cross_entropy'):
        fac = getattr(PO, name)(S, lam=lam,
                                g=_g_or_none(cfg, rng, S, positive=True))
        if opt(cfg, rng, 'sigma', ['scalar', 'elem']) == 'elem':
            sigma = SP.rand_elem(S, data(cfg, 'sigma'), positive=True)
    elif name in ('proximal_translation', 'proximal_arg_scaling',
                  'proximal_quadratic_perturbation', 'proximal_composition',
                  'proximal_convex_conj', 'combine_proximals'):
        iname = opt(cfg, rng, 'inner', [
            'proximal_l1', 'proximal_l2', 'proximal_l2_squared',
            'proximal_convex_conj_l1', 'moreau_of_l2', 'proximal_linfty'])
        if iname == 'moreau_of_l2':
            inner = PO.proximal_convex_conj(PO.proximal_l2(S))
        else:
            inner = getattr(PO, iname)(S)
        if name == 'proximal_translation':
            fac = PO.proximal_translation(inner, SP.rand_elem(S, data(cfg, 'y')))
        elif name == 'proximal_arg_scaling':
            sc = opt(cfg, rng, 'argscale', ['scalar', 'zero', 'elem'])
            scal = {'scalar': 2.0, 'zero': 0.0}.get(sc)
            if sc == 'elem':
                scal = SP.rand_elem(S, data(cfg, 'sc'), positive=True)
            fac = PO.proximal_arg_scaling(inner, scal)
        elif name == 'proximal_quadratic_perturbation':
            fac = PO.proximal_quadratic_perturbation(
                inner, a=opt(cfg, rng, 'qa', [0.0, 0.5]),
                u=(SP.rand_elem(S, data(cfg, 'u'))
                   if opt(cfg, rng, 'qu', [True, False]) else None))
        elif name == 'proximal_composition':
            fac = PO.proximal_composition(inner, o.ScalingOperator(S, 2.0),
                                          mu=4.0)
        elif name == 'proximal_convex_conj':
            fac = PO.proximal_convex_conj(inner)
        else:
            fac = PO.combine_proximals(inner, PO.proximal_l2_squared(S))
    else:
        fac = getattr(PO, name)(S, lam=lam, g=_g_or_none(cfg, rng, S))
        if name in ('proximal_l1', 'proximal_l2_squared',
                    'proximal_convex_conj_l2_squared',
                    'proximal_convex_conj_l1') and \
                opt(cfg, rng, 'sigma', ['scalar', 'scalar', 'elem']) == 'elem':
            sigma = SP.rand_elem(S, data(cfg, 'sigma'), positive=True)
    return _with_sibling(cfg, rng, fac, sigma)


def _with_sibling(cfg, rng, fac, sigma):
    """The operator `fac(sigma)`; with the option `sibling`, a second
    operator from the *same factory object* with another step is attached as
    `_sim_sibling` (the engine calls it first: whatever a factory shares
    between its products must not leak from one into the other)."""
    op = fac(sigma)
    if opt(cfg, rng, 'sibling', [False, False, True]):
        try:
            if SP.is_elem(sigma):
                sig2 = SP.rand_elem(sigma.space, data(cfg, 'sigma2'),
                                    positive=True)
            else:
                sig2 = 1.7 * sigma + 0.1
            op._sim_sibling = fac(sig2)
        except Exception:
            pass
    return op


# ==========================================================================
# expression classes (operator arithmetic)
# ==========================================================================

def _expr_leaf(cfg, rng, key, S, linear=None):
    """Leaf operator S -> S for expression nodes (linear and nonlinear)."""
    o = odl()
    kinds = ['id', 'scale', 'mult', 'const', 'square', 'sin', 'proxl1',
             'proxl2sq']
    if linear:
        kinds = ['id', 'scale', 'mult']
    kind = opt(cfg, rng, key, kinds)
    g = data(cfg, key)
    if kind == 'id':
        return o.IdentityOperator(S)
    if kind == 'scale':
        return o.ScalingOperator(S, -0.5)
    if kind == 'mult':
        return o.MultiplyOperator(SP.rand_elem(S, g))
    if kind == 'const':
        return o.ConstantOperator(SP.rand_elem(S, g))
    if kind == 'square':
        return o.ufunc_ops.square(S)
    if kind == 'sin':
        return o.ufunc_ops.sin(S)
    if kind == 'proxl1':
        return o.solvers.L1Norm(S).proximal(0.7)
    if kind == 'proxl2sq':
        return o.solvers.L2NormSquared(S).proximal(0.7)
    raise HarnessError(kind)


@recipe('expr', c10=True, fam='expression', weight=8)
def _expr(cfg, rng):
    o = odl()
    from odl.operator import operator as OO
    S = space(cfg, rng, want='real', maxsize=8)
    node = opt(cfg, rng, 'node', [
        'sum', 'sum_tmp', 'vecsum', 'comp', 'comp_tmp', 'pwprod', 'lscalar',
        'rscalar', 'rscalar_tmp', 'lvec', 'rvec', 'nested', 'arith'])
    A = _expr_leaf(cfg, rng, 'A', S)
    B = _expr_leaf(cfg, rng, 'B', S)
    g = data(cfg, 'expr')
    if node == 'sum':
        return OO.OperatorSum(A, B)
    if node == 'sum_tmp':
        op = OO.OperatorSum(A, B, tmp_ran=S.element(), tmp_dom=S.element())
        op._sim_scratch = [op._OperatorSum__tmp_ran, op._OperatorSum__tmp_dom]
        return op
    if node == 'vecsum':
        return OO.OperatorVectorSum(A, SP.rand_elem(S, g))
    if node == 'comp':
        return OO.OperatorComp(A, B)
    if node == 'comp_tmp':
        op = OO.OperatorComp(A, B, tmp=S.element())
        op._sim_scratch = [op._OperatorComp__tmp]
        return op
    if node == 'pwprod':
        return OO.OperatorPointwiseProduct(A, B)
    if node == 'lscalar':
        return OO.OperatorLeftScalarMult(A, opt(cfg, rng, 'c', [2.0, 0.0, -1.0]))
    if node == 'rscalar':
        return OO.OperatorRightScalarMult(A, opt(cfg, rng, 'c', [2.0, 0.0, -1.0]))
    if node == 'rscalar_tmp':
        op = OO.OperatorRightScalarMult(A, opt(cfg, rng, 'c', [2.0, 0.0, -1.0]),
                                        tmp=S.element())
        op._sim_scratch = [op._OperatorRightScalarMult__tmp]
        return op
    if node == 'lvec':
        return OO.OperatorLeftVectorMult(A, SP.rand_elem(S, g))
    if node == 'rvec':
        return OO.OperatorRightVectorMult(A, SP.rand_elem(S, g))
    if node == 'nested':
        C = _expr_leaf(cfg, rng, 'C', S)
        return OO.OperatorSum(OO.OperatorComp(A, B),
                              OO.OperatorRightScalarMult(C, 0.5))
    # built by overloaded arithmetic (lets odl choose classes and merge
    # scalars)
    C = _expr_leaf(cfg, rng, 'C', S)
    form = opt(cfg, rng, 'form', ['2*A+B', 'A*B-C', '(A*2)*B', 'A+v', 'v*A',
                                  'A*v', '-A', 'A/2', '(A+B)*C', 'A**2'])
    v = SP.rand_elem(S, g)
    if form == '2*A+B':
        return 2 * A + B
    if form == 'A*B-C':
        return A * B - C
    if form == '(A*2)*B':
        return (A * 2) * B
    if form == 'A+v':
        return A + v
    if form == 'v*A':
        return v * A
    if form == 'A*v':
        return A * v
    if form == '-A':
        return -A
    if form == 'A/2':
        return A / 2
    if form == '(A+B)*C':
        return (A + B) * C
    return A ** 2


TREE_LEAVES = ['id', 'scale', 'mult', 'const', 'square', 'sin', 'proxl1',
               'proxl2sq', 'proxl2g', 'proxlinf', 'proxbox', 'proxccl1',
               'proxtrans', 'zero', 'stencil', 'stencil', 'repart', 'repart']


def _gen_tree(rng, depth, leaves=None):
    leaves = leaves or TREE_LEAVES
    if depth == 0 or rng.random() < 0.25:
        return ['leaf', rng.choice(leaves), rng.getrandbits(16)]
    op = rng.choice(['add', 'add', 'sub', 'sub', 'lscal', 'lscal', 'rscal',
                     'comp', 'lvec', 'rvec', 'neg', 'vecadd', 'div',
                     'same_add', 'same_comp', 'pw', 'same_pw', 'pow'])
    if op == 'pow':
        # A ** n: a chain of compositions odl builds itself (seed z03)
        return [op, rng.choice([2, 3, 3, 4]), _gen_tree(rng, depth - 1, leaves)]
    if op in ('same_add', 'same_comp', 'same_pw'):
        # the very same operator object on both sides
        return [op, _gen_tree(rng, depth - 1, leaves)]
    if op in ('add', 'sub', 'comp', 'pw'):
        return [op, _gen_tree(rng, depth - 1, leaves),
                _gen_tree(rng, depth - 1, leaves)]
    if op in ('lscal', 'rscal', 'div'):
        return [op, rng.choice([2.0, 0.5, -1.0, 0.0, 1.0, -0.25, 3.0]),
                _gen_tree(rng, depth - 1, leaves)]
    if op in ('lvec', 'rvec', 'vecadd'):
        return [op, rng.getrandbits(16), _gen_tree(rng, depth - 1, leaves)]
    return [op, _gen_tree(rng, depth - 1, leaves)]


def _build_tree(t, S, cfg):
    o = odl()
    op = t[0]
    if op == 'leaf':
        kind, salt = t[1], t[2]
        g = data(cfg, 'leaf', salt)
        F = o.solvers
        if kind == 'id':
            return o.IdentityOperator(S)
        if kind == 'zero':
            return o.ZeroOperator(S)
        if kind == 'scale':
            return o.ScalingOperator(S, -0.5)
        if kind == 'mult':
            return o.MultiplyOperator(SP.rand_elem(S, g))
        if kind == 'const':
            return o.ConstantOperator(SP.rand_elem(S, g))
        if kind == 'square':
            return o.ufunc_ops.square(S)
        if kind == 'sin':
            return o.ufunc_ops.sin(S)
        if kind == 'repart':
            # on a real space RealPart hands back its input (a result that is
            # a view of x): wrappers must not write into what they get back
            return o.RealPart(S)
        if kind == 'proxl1':
            return F.L1Norm(S).proximal(0.7)
        if kind == 'proxl2sq':
            return F.L2NormSquared(S).proximal(0.7)
        if kind == 'proxl2g':
            from odl.solvers.nonsmooth.proximal_operators import proximal_l2
            return proximal_l2(S, lam=0.5, g=SP.rand_elem(S, g))(0.7)
        if kind == 'proxlinf':
            return F.LpNorm(S, float('inf')).proximal(0.7)
        if kind == 'proxbox':
            return F.IndicatorBox(S, -0.5, 0.5).proximal(1.0)
        if kind == 'proxccl1':
            return F.L1Norm(S).convex_conj.proximal(0.7)
        if kind == 'proxtrans':
            return F.L2Norm(S).translated(SP.rand_elem(S, g)).proximal(0.7)
        if kind == 'stencil':
            # an S -> S operator whose _call is *not* safe for out is x
            # (reads neighbours / rows after writing): exposes wrappers that
            # hand it aliased arguments on their own
            if isinstance(S, o.DiscretizedSpace):
                if salt % 2:
                    return o.Laplacian(S, pad_mode='symmetric')
                return o.PartialDerivative(S, axis=0, method='central',
                                           pad_mode='order0')
            if len(S.shape) == 1:
                n = S.shape[0]
                A = g.standard_normal((n, n))
                return o.MatrixOperator(A, domain=S, range=S)
            return o.ScalingOperator(S, 1.5)
        raise HarnessError(kind)
    if op == 'add':
        return _build_tree(t[1], S, cfg) + _build_tree(t[2], S, cfg)
    if op == 'sub':
        return _build_tree(t[1], S, cfg) - _build_tree(t[2], S, cfg)
    if op == 'comp':
        return _build_tree(t[1], S, cfg) * _build_tree(t[2], S, cfg)
    if op == 'pw':
        from odl.operator.operator import OperatorPointwiseProduct
        return OperatorPointwiseProduct(_build_tree(t[1], S, cfg),
                                        _build_tree(t[2], S, cfg))
    if op in ('same_add', 'same_comp', 'same_pw'):
        B = _build_tree(t[1], S, cfg)
        if op == 'same_add':
            return B + B
        if op == 'same_comp':
            return B * B
        from odl.operator.operator import OperatorPointwiseProduct
        return OperatorPointwiseProduct(B, B)
    if op == 'lscal':
        return t[1] * _build_tree(t[2], S, cfg)
    if op == 'rscal':
        return _build_tree(t[2], S, cfg) * t[1]
    if op == 'div':
        if t[1] == 0:
            raise Reject('division by zero scalar')
        return _build_tree(t[2], S, cfg) / t[1]
    if op == 'neg':
        return -_build_tree(t[1], S, cfg)
    if op == 'pow':
        return _build_tree(t[2], S, cfg) ** t[1]
    v = SP.rand_elem(S, data(cfg, 'vec', t[1]))
    if op == 'lvec':
        return v * _build_tree(t[2], S, cfg)
    if op == 'rvec':
        return _build_tree(t[2], S, cfg) * v
    if op == 'vecadd':
        return _build_tree(t[2], S, cfg) + v
    raise HarnessError(op)


def tree_str(t):
    if t[0] == 'leaf':
        return t[1]
    if t[0] in ('add', 'sub', 'comp', 'pw'):
        sym = {'add': '+', 'sub': '-', 'comp': 'o', 'pw': '.*'}[t[0]]
        return '({}{}{})'.format(tree_str(t[1]), sym, tree_str(t[2]))
    if t[0] in ('same_add', 'same_comp', 'same_pw'):
        sym = {'same_add': '+', 'same_comp': 'o', 'same_pw': '.*'}[t[0]]
        return '(B{}B: B={})'.format(sym, tree_str(t[1]))
    if t[0] in ('lscal', 'rscal', 'div', 'pow'):
        return '{}[{}]({})'.format(t[0], t[1], tree_str(t[2]))
    if t[0] == 'neg':
        return '-({})'.format(tree_str(t[1]))
    return '{}({})'.format(t[0], tree_str(t[2]))


@recipe('expr_tree', c10=True, fam='expression', weight=14)
def _expr_tree(cfg, rng):
    """Random operator-arithmetic expression (depth <= 3) over linear,
    nonlinear and proximal leaves, built with the overloaded operators so
    that odl picks the expression classes and merges scalars itself."""
    S = space(cfg, rng, want='real', maxsize=6)
    # C10 covers proximals and the listed alias-safe building blocks only:
    # a stencil leaf is itself not safe for out is x, so it is left out there
    leaves = [l for l in TREE_LEAVES if l != 'stencil'] \
        if cfg.get('c10_only') else TREE_LEAVES
    tree = optf(cfg, rng, 'tree',
                lambda r: _gen_tree(r, r.randint(1, 3), leaves))
    cfg['treestr'] = tree_str(tree)
    return _build_tree(tree, S, cfg)


@recipe('functional_expr', fam='expression', weight=2)
def _fexpr(cfg, rng):
    o = odl()
    from odl.operator import operator as OO
    S = space(cfg, rng, want='real', maxsize=6)
    f = o.solvers.L2NormSquared(S)
    node = opt(cfg, rng, 'node', ['flvm', 'fsum', 'fcomp', 'fscal'])
    if node == 'flvm':
        R = space(cfg, rng, 'R', want='real', maxsize=5)
        return OO.FunctionalLeftVectorMult(f, SP.rand_elem(R, data(cfg)))
    if node == 'fsum':
        return f + o.solvers.L1Norm(S)
    if node == 'fcomp':
        return f * o.MultiplyOperator(SP.rand_elem(S, data(cfg)))
    return 2.0 * f


@recipe('translation_op', c10=True, fam='expression', weight=2)
def _translation_op(cfg, rng):
    """Identity +/- vector, as the solvers' translation building block."""
    o = odl()
    S = space(cfg, rng, want='real', maxsize=8, allow_product=True)
    v = SP.rand_elem(S, data(cfg))
    if opt(cfg, rng, 'sign', ['+', '-']) == '+':
        return o.IdentityOperator(S) + v
    return o.IdentityOperator(S) - v


# --------------------------------------------------------------------------
# derivations applicable per family
# --------------------------------------------------------------------------

DERIVE_CHOICES = [[], [], [], [['adjoint']], [['inverse']],
                  [['derivative', False]], [['adjoint'], ['adjoint']],
                  [['inverse'], ['inverse']], [['adjoint'], ['inverse']],
                  [['derivative', False], ['adjoint']]]


def gen_recipe(rng, c10_only=False):
    names = [n for n, r in sorted(RECIPES.items())
             if (r['c10'] or not c10_only)]
    weights = [RECIPES[n]['weight'] for n in names]
    name = rng.choices(names, weights)[0]
    cfg = {'recipe': name, 'seed': rng.getrandbits(32)}
    if c10_only:
        cfg['c10_only'] = True
    fam = RECIPES[name]['fam']
    if not c10_only and fam not in ('functional', 'proximal', 'ufunc'):
        cfg['derive'] = rng.choice(DERIVE_CHOICES)
        if cfg['derive'] and cfg['derive'][0][0] == 'derivative':
            cfg['derive'][0][1] = True if name in ('Power',) else False
    elif c10_only and fam == 'default' and rng.random() < 0.3:
        cfg['derive'] = rng.choice([[['adjoint']], [['inverse']]])
    return cfg
