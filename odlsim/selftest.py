"""Self-tests of the machinery (not property checks).

selftest-determinism [--runs K]   every claimed property: K runs, executed
    (a) twice in this process at two worker counts, (b) in a fresh interpreter
    under another PYTHONHASHSEED and worker count, (c) with junk allocations
    between runs (another heap layout); per-run digests must agree.  The BLAS
    thread count is *pinned* to 1 (odlsim.env) and not varied here: with 4
    threads OpenBLAS axpy on >= 50 000 entries differs in the last bit at the
    chunk boundaries (2 of 2000 C01 runs).
selftest-digest <prop>            helper: print per-run digests as JSON.
selftest-sensitivity              apply each seeded change in /verif/seeded and
    each built-in mutation to a scratch copy of /repo/odl and expect the quick
    tier of the right property to report a VIOLATION.
"""
import json
import os
import subprocess
import sys

from . import runner
from .env import VERIF


def _digests(prop, runs, workers, seed):
    runner.KEEP_DIGESTS = True
    code, total = runner.run_batch(prop, 'quick', seed, nruns=runs,
                                   budget_s=3600, workers=workers,
                                   write_evidence=False, quiet=True)
    return dict(total['digests']), code


def _fresh(prop, runs, workers, seed, extra_env):
    env = dict(os.environ)
    env.update(extra_env)
    env.pop('ODLSIM_REEXEC', None)
    cmd = [sys.executable, os.path.join(VERIF, 'check'), 'selftest-digest',
           '--runs', str(runs), '--workers', str(workers), '--seed', str(seed)]
    env['ODLSIM_DIGEST_PROP'] = prop
    env['ODLSIM_KEEP_DIGESTS'] = '1'
    p = subprocess.run(cmd, env=env, stdout=subprocess.PIPE,
                       stderr=subprocess.PIPE, timeout=3600)
    for line in p.stdout.decode().splitlines():
        if line.startswith('DIGESTS '):
            d = json.loads(line[8:])
            return {int(k): v for k, v in d.items()}
    raise RuntimeError('fresh digest run failed: ' + p.stdout.decode()[-500:] +
                       p.stderr.decode()[-500:])


def main(args):
    what = args.what
    if what == 'selftest-digest':
        prop = os.environ['ODLSIM_DIGEST_PROP']
        d, code = _digests(prop, args.runs or 64, args.workers or 2, args.seed)
        print('DIGESTS ' + json.dumps(d))
        return 0
    if what == 'selftest-determinism':
        runs = args.runs or 512
        bad = 0
        props = sorted(runner.ENGINE_OF)
        only = os.environ.get('ODLSIM_PROPS')
        if only:
            props = only.split(',')
        for prop in props:
            try:
                runner.engine_for(prop).TIERS[prop]
            except Exception:
                print('{}: engine not built yet, skipped'.format(prop))
                continue
            a, _ = _digests(prop, runs, 16, args.seed)
            b, _ = _digests(prop, runs, 5, args.seed)
            c = _fresh(prop, runs, 7, args.seed, {'PYTHONHASHSEED': '4242'})
            d = _fresh(prop, runs, 3, args.seed,
                       {'PYTHONHASHSEED': '99', 'ODLSIM_HEAP_NOISE': '7'})
            diffs = [r for r in a
                     if not (a[r] == b.get(r) == c.get(r) == d.get(r))]
            print('{}: {} runs x 4 executions (workers 16/5/7/3, hash seeds '
                  '0/0/4242/99, junk allocations between runs in the last): '
                  '{} divergent'.format(
                      prop, len(a), len(diffs)))
            if len(a) != runs or len(b) != runs or len(c) != runs:
                print('  incomplete batches', len(a), len(b), len(c), len(d))
                bad += 1
            if diffs:
                bad += 1
                print('  divergent run indices: {}'.format(diffs[:20]))
        return 0 if bad == 0 else 2
    if what == 'selftest-sensitivity':
        from . import sensitivity
        return sensitivity.main(args)
    if what == 'selftest-reach':
        from . import reach
        return reach.main(args)
    print('unknown selftest', what)
    return 2
