"""Harness-side first-order optimality oracle (C12).

For min_x f(x) + sum_i g_i(L_i x) + h(x) the residual at x is

    r(x) = min_{u in d_eps f(Px), v_i in d_eps g_i(P_i L_i x)}
               || u + grad h(x) + sum_i L_i^* v_i ||_X
           + ||x - Px||_X + sum_i ||L_i x - P_i L_i x||_{Y_i}

where P projects onto the domain of the (indicator) functional and d_eps is
the eps-enlarged sub-differential.  All sub-differentials are Riesz
representatives w.r.t. the (constant-)weighted inner products of the spaces,
described as products of small blocks (intervals or Euclidean balls) on
flattened coordinates; the minimisation is a tiny convex QP solved by FISTA.
Nothing here comes from a stored answer.
"""
import numpy as np

from .core import np_rng, Reject, elem_flat
from . import problems as P

INF = np.inf

# families the oracle models (others are not used in C12 instances)
KKT_FAMILIES = ('l1', 'scaled_l1', 'l1_trans', 'l2', 'l2_trans', 'l2sq',
                'l2sq_trans', 'zero', 'const', 'box', 'nonneg', 'huber',
                'linfball', 'quadpert', 'quadpert_smooth', 'l2ball', 'kl')
KKT_SMOOTH = ('l2sq', 'l2sq_trans', 'huber', 'quadpert_smooth')
KKT_PRODUCT = ('sepsum', 'groupl1', 'l2sq_p')


class SetProd(object):
    """Product of blocks: box part (lo, hi per coordinate) and ball blocks
    [(idx, center, radius)] (Euclidean in flattened coordinates)."""

    def __init__(self, n):
        self.lo = np.zeros(n)
        self.hi = np.zeros(n)
        self.balls = []

    def project(self, v):
        out = np.clip(v, self.lo, self.hi)
        for idx, c, r in self.balls:
            d = v[idx] - c
            nd = np.linalg.norm(d)
            out[idx] = c + (d if nd <= r else d * (r / nd))
        return out

    def point(self):
        p = np.where(np.isfinite(self.lo), self.lo,
                     np.where(np.isfinite(self.hi), self.hi, 0.0))
        p = np.clip(0.0, self.lo, self.hi)
        for idx, c, r in self.balls:
            p[idx] = c
        return p


class Model(object):
    """Harness model of one functional: domain projection + eps-subdiff."""

    def __init__(self, cfg, space):
        self.cfg = cfg
        self.space = space
        self.n = elem_flat(space.zero()).size
        self.w = P.gram_diag(space)
        if self.w is None:
            raise Reject('weighting not modelled')
        fam = cfg['fam']
        if self.w.size and np.ptp(self.w) > 1e-14 * np.max(np.abs(self.w)) \
                and fam in ('l2', 'l2_trans', 'l2ball', 'groupl1', 'l2_p',
                            'l2sq_p'):
            # these models describe (dual) norm balls as Euclidean balls of
            # radius lam / sqrt(w): only right for one weight per space
            raise Reject('array weighting not modelled for this family')
        g = np_rng('func', cfg['seed'])   # same stream as problems.build_func
        self.lam = cfg.get('lam', 1.0)
        self.b = None
        self.parts = None
        if fam in ('l1_trans', 'l2_trans', 'l2sq_trans'):
            self.b = elem_flat(P.rand_elem(space, g))
        elif fam == 'box':
            self.lo = -abs(g.standard_normal()) - 0.1
            self.hi = abs(g.standard_normal()) + 0.1
        elif fam in ('quadpert', 'quadpert_smooth'):
            self.c = elem_flat(P.rand_elem(space, g))
        elif fam == 'kl':
            self.prior = elem_flat(P.rand_elem(space, g, positive=True))
        elif fam == 'sepsum':
            self.parts = [Model(c, s) for c, s in zip(cfg['parts'], space)]
        elif fam == 'groupl1':
            self.d = len(space)
            self.m = self.n // self.d
        if fam not in KKT_FAMILIES + KKT_PRODUCT:
            raise Reject('family {} not modelled by the KKT oracle'.format(fam))

    # -- domain projection ------------------------------------------------
    def proj_dom(self, x):
        fam = self.cfg['fam']
        if fam == 'box':
            return np.clip(x, self.lo, self.hi)
        if fam == 'nonneg':
            return np.maximum(x, 0.0)
        if fam == 'linfball':
            return np.clip(x, -1.0, 1.0)
        if fam == 'kl':
            return np.maximum(x, 1e-9)
        if fam == 'l2ball':
            nrm = np.sqrt(np.sum(self.w * x * x))
            return x if nrm <= 1 else x / nrm
        if fam == 'sepsum':
            out, pos = [], 0
            for m in self.parts:
                out.append(m.proj_dom(x[pos:pos + m.n]))
                pos += m.n
            return np.concatenate(out)
        return x

    def interior(self, x):
        """A point near x that is safely inside dom f (constructed solutions
        must not sit on the boundary of an open domain, where the gradient
        blows up and rounding dominates)."""
        fam = self.cfg['fam']
        if fam == 'kl':
            return np.abs(x) + 0.1
        if fam == 'sepsum':
            out, pos = [], 0
            for m in self.parts:
                out.append(m.interior(x[pos:pos + m.n]))
                pos += m.n
            return np.concatenate(out)
        return self.proj_dom(x)

    def safe(self, y):
        """Is y safely inside dom f (see `interior`)?"""
        fam = self.cfg['fam']
        if fam == 'kl':
            return bool(np.all(y >= 0.05))
        if fam == 'sepsum':
            pos, ok = 0, True
            for m in self.parts:
                ok = ok and m.safe(y[pos:pos + m.n])
                pos += m.n
            return ok
        return True

    def kinks(self, x):
        """Nearest non-differentiability location per coordinate (NaN where
        the functional is smooth); used to place constructed solutions on
        kinks."""
        fam = self.cfg['fam']
        nan = np.full(self.n, np.nan)
        if fam in ('l1', 'scaled_l1', 'quadpert'):
            return np.zeros(self.n)
        if fam == 'l1_trans':
            return self.b.copy()
        if fam == 'box':
            return np.where(x < 0.5 * (self.lo + self.hi), self.lo, self.hi)
        if fam == 'nonneg':
            return np.zeros(self.n)
        if fam == 'linfball':
            return np.sign(x) + (x == 0)
        if fam == 'sepsum':
            out, pos = [], 0
            for m in self.parts:
                out.append(m.kinks(x[pos:pos + m.n]))
                pos += m.n
            return np.concatenate(out)
        return nan

    # -- eps-enlarged sub-differential ------------------------------------
    def subdiff(self, x, eps, S=None, off=0):
        """Fill block description of d_eps f(x) into S at offset off."""
        n = self.n
        if S is None:
            S = SetProd(n)
        sl = slice(off, off + n)
        fam = self.cfg['fam']
        lam = self.lam
        w0 = self.w[0]

        def l1_box(z, c):
            lo = np.where(z > eps, c, -c)
            hi = np.where(z < -eps, -c, c)
            return lo, hi

        if fam in ('l1', 'scaled_l1', 'l1_trans', 'quadpert'):
            z = x - self.b if self.b is not None else x
            c = abs(lam) if fam != 'quadpert' else 1.0
            lo, hi = l1_box(z, c)
            if fam == 'quadpert':
                shift = 2 * lam * x + self.c
                lo, hi = lo + shift, hi + shift
            S.lo[sl], S.hi[sl] = lo, hi
        elif fam in ('l2', 'l2_trans'):
            z = x - self.b if self.b is not None else x
            nrm = np.sqrt(np.sum(self.w * z * z))
            if nrm <= eps * np.sqrt(w0 * n):
                # ball of radius lam in the weighted norm
                S.lo[sl], S.hi[sl] = -INF, INF
                S.balls.append((np.arange(off, off + n), np.zeros(n),
                                lam / np.sqrt(w0)))
            else:
                S.lo[sl] = S.hi[sl] = lam * z / nrm
        elif fam in ('l2sq', 'l2sq_trans', 'l2sq_p'):
            z = x - self.b if self.b is not None else x
            S.lo[sl] = S.hi[sl] = 2 * lam * z
        elif fam == 'quadpert_smooth':
            S.lo[sl] = S.hi[sl] = 2 * x + 2 * lam * x + self.c
        elif fam in ('zero', 'const'):
            pass
        elif fam in ('box', 'nonneg', 'linfball'):
            lo_b, hi_b = {'box': (getattr(self, 'lo', 0), getattr(self, 'hi', 0)),
                          'nonneg': (0.0, INF),
                          'linfball': (-1.0, 1.0)}[fam]
            S.lo[sl] = np.where(x <= lo_b + eps, -INF, 0.0)
            S.hi[sl] = np.where(x >= hi_b - eps, INF, 0.0)
        elif fam == 'l2ball':
            nrm = np.sqrt(np.sum(self.w * x * x))
            if nrm >= 1 - eps:
                # normal cone {t x, t >= 0}: model as the segment [0, T] x
                # via a degenerate box along x is not a box; use the ray
                # parametrisation through an auxiliary ball: conservative
                # (smaller) set = the ray sampled as a long segment
                S.lo[sl] = np.minimum(0.0, 1e6 * x)
                S.hi[sl] = np.maximum(0.0, 1e6 * x)
                S.ray = getattr(S, 'ray', []) + [(
                    np.arange(off, off + n),
                    x / max(np.linalg.norm(x), 1e-300))]   # Euclidean unit
            # inside: {0}
        elif fam == 'huber':
            gam = self.cfg.get('gamma', 0.5)
            S.lo[sl] = S.hi[sl] = lam * np.clip(x / gam, -1.0, 1.0)
        elif fam == 'kl':
            # lam * sum w (x - g + g log(g/x)), x > 0: gradient lam (1 - g/x)
            S.lo[sl] = S.hi[sl] = lam * (1.0 - self.prior / np.maximum(x, 1e-300))
        elif fam == 'groupl1':
            d, m = self.d, self.m
            X = x.reshape(d, m)
            nr = np.sqrt(np.sum(X * X, axis=0))
            for j in range(m):
                idx = off + np.arange(d) * m + j
                if nr[j] <= eps * np.sqrt(d):
                    S.lo[idx], S.hi[idx] = -INF, INF
                    S.balls.append((idx, np.zeros(d), abs(lam)))
                else:
                    S.lo[idx] = S.hi[idx] = lam * X[:, j] / nr[j]
        elif fam == 'sepsum':
            pos = off
            for mdl in self.parts:
                mdl.subdiff(x[pos - off:pos - off + mdl.n], eps, S, pos)
                pos += mdl.n
        else:
            raise Reject('no subdiff model for ' + fam)
        return S


def _proj_with_rays(S, v):
    out = S.project(v)
    for idx, u in getattr(S, 'ray', []):
        t = max(0.0, float(np.dot(v[idx], u)))
        out[idx] = t * u
    return out


def min_norm_sum(const, mats, sets, wX, iters=4000):
    """min || const + sum_k mats[k] @ v_k ||_{wX}  over v_k in sets[k].

    Interval-only sets: exact bounded-variable least squares (BVLS).
    With ball / ray blocks: FISTA with adaptive restart on the stacked
    variable, started from the BVLS solution of the box relaxation.
    Returns the minimal weighted norm (an upper bound when FISTA stops
    early -- it is only ever compared with `<= target`)."""
    from scipy.optimize import lsq_linear
    sw = np.sqrt(wX)
    A = np.hstack([sw[:, None] * M for M in mats]) if mats else np.zeros((len(const), 0))
    c = sw * const
    if A.shape[1] == 0:
        return float(np.linalg.norm(c))
    sizes = [M.shape[1] for M in mats]
    offs = np.cumsum([0] + sizes)
    lo = np.concatenate([S.lo for S in sets])
    hi = np.concatenate([S.hi for S in sets])
    simple = all(not S.balls and not getattr(S, 'ray', []) for S in sets)
    # fixed coordinates (lo == hi) are moved into the constant
    fixed = lo == hi
    c_eff = c + A[:, fixed] @ lo[fixed]
    free = ~fixed
    if not np.any(free):
        return float(np.linalg.norm(c_eff))

    def proj(v):
        return np.concatenate([_proj_with_rays(S, v[offs[k]:offs[k + 1]])
                               for k, S in enumerate(sets)])

    if simple:
        Af = A[:, free]
        try:
            res = lsq_linear(Af, -c_eff, bounds=(lo[free], hi[free]),
                             method='bvls', tol=1e-14, max_iter=200)
            return float(np.linalg.norm(Af @ res.x + c_eff))
        except Exception:
            pass
    Lc = np.linalg.norm(A, 2) ** 2
    if Lc == 0:
        return float(np.linalg.norm(c))
    v0 = np.linalg.lstsq(A, -c, rcond=None)[0]
    v = proj(v0)
    z = v.copy()
    t = 1.0
    best = np.linalg.norm(A @ v + c)
    for k in range(iters):
        grad = A.T @ (A @ z + c)
        vn = proj(z - grad / Lc)
        if np.dot(z - vn, vn - v) > 0:      # adaptive restart
            t = 1.0
        tn = (1 + np.sqrt(1 + 4 * t * t)) / 2
        z = vn + ((t - 1) / tn) * (vn - v)
        step = np.linalg.norm(vn - v)
        v, t = vn, tn
        if k % 20 == 19:
            r = np.linalg.norm(A @ v + c)
            best = min(best, r)
            if r <= 1e-15 or step <= 1e-15 * (1 + np.linalg.norm(v)):
                break
    return float(min(best, np.linalg.norm(A @ v + c)))


class Problem(object):
    """min f(x) + sum g_i(L_i x) + h(x) with harness models."""

    def __init__(self, X, f_cfg, gs_cfg, Ls, h=None):
        self.X = X
        self.fm = Model(f_cfg, X)
        self.gms = [Model(c, L.range) for c, L in zip(gs_cfg, Ls)]
        self.Ls = Ls
        self.h = h
        self.wX = P.gram_diag(X)
        self.wYs = [P.gram_diag(L.range) for L in Ls]
        # matrices of L_i (flattened) and of the *real* adjoints
        self.Ms = [P.op_matrix(L) for L in Ls]
        self.MTs = [P.op_matrix(L.adjoint) for L in Ls]

    def residual(self, x_elem, eps):
        x = elem_flat(x_elem).astype(float)
        if not np.all(np.isfinite(x)):
            return float('inf')
        px = self.fm.proj_dom(x)
        feas = np.sqrt(np.sum(self.wX * (x - px) ** 2))
        sets = [self.fm.subdiff(px, eps)]
        mats = [np.eye(len(x))]
        for gm, M, MT, wY in zip(self.gms, self.Ms, self.MTs, self.wYs):
            y = M @ x
            py = gm.proj_dom(y)
            feas += np.sqrt(np.sum(wY * (y - py) ** 2))
            sets.append(gm.subdiff(py, eps))
            mats.append(MT)
        const = np.zeros(len(x))
        if self.h is not None:
            const = elem_flat(self.h.gradient(x_elem)).astype(float)
        return min_norm_sum(const, mats, sets, self.wX) + float(feas)


def prox_filter(func, model, space, seed, sigmas=(0.3, 1.7)):
    """Precondition filter: odl's proximal of this functional on this space
    must agree with the harness sub-differential model:
    p = prox_{s f}(z)  =>  (z - p)/s in d_eps f(p), p in dom f.
    Otherwise the instance is outside what the oracle can judge."""
    g = np_rng('proxfilter', seed)
    for s in sigmas:
        for scale in (0.3, 2.0):
            z = P.rand_elem(space, g, scale)
            p = func.proximal(s)(z)
            pf = elem_flat(p).astype(float)
            zf = elem_flat(z).astype(float)
            if np.linalg.norm(model.proj_dom(pf) - pf) > 1e-9:
                raise Reject('prox leaves the modelled domain')
            S = model.subdiff(pf, 1e-9)
            v = (zf - pf) / s
            if np.linalg.norm(_proj_with_rays(S, v) - v) > 1e-7 * (1 + np.linalg.norm(v)):
                raise Reject('odl proximal inconsistent with sub-differential '
                             'model ({})'.format(model.cfg['fam']))
