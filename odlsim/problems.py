"""Seeded problem instances for solversim: spaces, linear operators with exact
adjoints, functionals from the library.  Everything is built from a
JSON-serialisable config so that a replay file is self-contained.
"""
import numpy as np

from .core import np_rng, Reject, elem_flat


def odl():
    import odl as _odl
    return _odl


# --------------------------------------------------------------------------
# spaces
# --------------------------------------------------------------------------

SPACE_KINDS = ('rn', 'rn', 'discr1d', 'discr1d', 'discr2d', 'discr2d',
               'rn_w', 'rn_w', 'rn_aw')


def gen_space(rng, kinds=SPACE_KINDS, nmin=2, nmax=8):
    kind = rng.choice(kinds)
    if kind in ('rn', 'rn_w', 'rn_aw'):
        cfg = {'kind': kind, 'n': rng.randint(nmin, nmax)}
        if kind == 'rn_w':
            cfg['w'] = rng.choice([0.5, 2.0, 0.125])
        if kind == 'rn_aw':
            # non-uniform (array) weighting
            cfg['w'] = [rng.choice([0.5, 1.0, 2.0, 3.0])
                        for _ in range(cfg['n'])]
        return cfg
    if kind == 'discr1d':
        return {'kind': kind, 'n': rng.randint(max(nmin, 2), nmax),
                'len': rng.choice([1.0, 2.0, 0.5, 8.0])}
    if kind == 'discr2d':
        return {'kind': kind, 'shape': [rng.randint(2, 3), rng.randint(2, 4)],
                'len': rng.choice([1.0, 3.0])}
    raise ValueError(kind)


def build_space(cfg):
    o = odl()
    k = cfg['kind']
    if k == 'rn':
        return o.rn(cfg['n'])
    if k in ('rn_w', 'rn_aw'):
        return o.rn(cfg['n'], weighting=cfg['w'])
    if k == 'discr1d':
        return o.uniform_discr(0, cfg['len'], cfg['n'])
    if k == 'discr2d':
        return o.uniform_discr([0, 0], [cfg['len'], 1.0], cfg['shape'])
    raise ValueError(k)


def rand_elem(space, g, scale=1.0, positive=False):
    """Random element with O(scale) entries from harness generator `g`."""
    o = odl()
    if isinstance(space, o.ProductSpace):
        return space.element([rand_elem(s, g, scale, positive) for s in space])
    arr = g.standard_normal(space.shape) * scale
    if positive:
        arr = np.abs(arr) + 0.1 * scale
    return space.element(arr)


# --------------------------------------------------------------------------
# linear operators (exact adjoints, verified by `adjoint_filter`)
# --------------------------------------------------------------------------

def gen_op(rng, space_cfg, allow=('matrix', 'identity', 'scaling', 'gradient',
                                  'matcomp', 'broadcast', 'partial',
                                  'viewid')):
    k = space_cfg['kind']
    cands = []
    for a in allow:
        if a in ('matrix', 'matcomp') and k != 'rn':
            continue
        if a in ('gradient', 'partial') and not k.startswith('discr'):
            continue
        if a == 'broadcast' and k not in ('rn', 'discr1d', 'discr2d', 'rn_w',
                                          'rn_aw'):
            continue
        cands.append(a)
    kind = rng.choice(cands)
    cfg = {'kind': kind, 'seed': rng.getrandbits(32)}
    if kind in ('matrix', 'matcomp'):
        cfg['m'] = rng.randint(1, 8)
        cfg['cond'] = rng.choice(['generic', 'generic', 'ill', 'rankdef'])
        if kind == 'matcomp':
            cfg['c'] = rng.choice([0.5, -2.0, 3.0])
    elif kind == 'scaling':
        cfg['c'] = rng.choice([0.5, -1.5, 2.0, 1.0])
    elif kind in ('gradient', 'partial'):
        cfg['method'] = rng.choice(['forward', 'backward', 'central'])
        cfg['pad_mode'] = rng.choice(['constant', 'periodic', 'symmetric',
                                      'order0', 'order1', 'order2'])
        cfg['axis'] = 0
    elif kind == 'broadcast':
        sub_allow = tuple(a for a in ('matrix', 'identity', 'scaling', 'partial',
                                      'viewid')
                          if a in allow)
        cfg['ops'] = [gen_op(rng, space_cfg, sub_allow)
                      for _ in range(rng.randint(2, 3))]
    return cfg


def build_op(cfg, X):
    o = odl()
    k = cfg['kind']
    if k == 'identity':
        return o.IdentityOperator(X)
    if k == 'viewid':
        # the identity in the guise of an operator whose out-of-place call
        # hands back its ARGUMENT (RealPart on a real space; its adjoint does
        # the same): a solver must not update `L(x)` in place
        if not isinstance(X, o.space.base_tensors.TensorSpace) or \
                not X.is_real:
            return o.IdentityOperator(X)
        return o.RealPart(X)
    if k == 'scaling':
        return o.ScalingOperator(X, cfg['c'])
    if k in ('matrix', 'matcomp'):
        g = np_rng('op', cfg['seed'])
        m, n = cfg['m'], X.size
        A = g.standard_normal((m, n))
        if cfg.get('cond') == 'ill' and min(m, n) >= 2:
            U, s, Vt = np.linalg.svd(A, full_matrices=False)
            s = s[0] * np.logspace(0, -4, len(s))
            A = (U * s) @ Vt
        elif cfg.get('cond') == 'rankdef' and min(m, n) >= 2:
            A[-1] = A[0] * 2.0
        op = o.MatrixOperator(A, domain=X, range=o.rn(m))
        if k == 'matcomp':
            op = cfg['c'] * op
        return op
    if k in ('gradient', 'partial'):
        if cfg['pad_mode'] in ('order1', 'order2') and min(X.shape) < 3:
            # documented: these paddings need 2 / 3 points along the axis
            # (checked at call time)
            raise Reject('axis too short for ' + cfg['pad_mode'])
        if k == 'gradient':
            return o.Gradient(X, method=cfg['method'],
                              pad_mode=cfg['pad_mode'])
        return o.PartialDerivative(X, axis=cfg.get('axis', 0),
                                   method=cfg['method'],
                                   pad_mode=cfg['pad_mode'])
    if k == 'broadcast':
        return o.BroadcastOperator(*[build_op(c, X) for c in cfg['ops']])
    raise ValueError(k)


def op_matrix(L):
    """Dense matrix of a linear operator w.r.t. flattened coordinates."""
    X, Y = L.domain, L.range
    n = elem_flat(X.zero()).size
    m = elem_flat(Y.zero()).size
    M = np.zeros((m, n))
    for j in range(n):
        e = np.zeros(n)
        e[j] = 1.0
        M[:, j] = elem_flat(L(unflatten(X, e)))
    return M


def unflatten(space, vec):
    o = odl()
    if isinstance(space, o.ProductSpace):
        parts, pos = [], 0
        for s in space:
            sz = elem_flat(s.zero()).size
            parts.append(unflatten(s, vec[pos:pos + sz]))
            pos += sz
        return space.element(parts)
    return space.element(np.asarray(vec).reshape(space.shape))


def gram_diag(space):
    """Diagonal of the Gram matrix of a (const-)weighted space, flattened, or
    None when the weighting is not a constant per component."""
    o = odl()
    if isinstance(space, o.ProductSpace):
        ds = []
        w = space.weighting
        consts = None
        if hasattr(w, 'const'):
            consts = [w.const] * len(space)
        elif hasattr(w, 'array'):
            consts = list(w.array)
        else:
            return None
        for s, c in zip(space, consts):
            d = gram_diag(s)
            if d is None:
                return None
            ds.append(c * d)
        return np.concatenate(ds)
    w = space.weighting
    if hasattr(w, 'const'):
        return np.full(int(np.prod(space.shape)) if space.shape else 1,
                       float(w.const))
    if hasattr(w, 'array'):
        return np.asarray(w.array, dtype=float).ravel()
    return None


def op_norm_true(L):
    """True operator norm in the weighted inner products."""
    M = op_matrix(L)
    gx, gy = gram_diag(L.domain), gram_diag(L.range)
    if gx is None or gy is None:
        raise Reject('non-diagonal weighting')
    Mw = (np.sqrt(gy)[:, None] * M) / np.sqrt(gx)[None, :]
    if Mw.size == 0:
        return 0.0
    return float(np.linalg.norm(Mw, 2))


def adjoint_filter(L, seed):
    """Precondition filter (not a check): <Lx,y> == <x,L*y> on 3 random
    pairs.  odl has operators whose adjoint is approximate or ignores
    weighting; those instances are outside C11/C12's hypotheses."""
    g = np_rng('adjfilter', seed)
    for _ in range(3):
        x = rand_elem(L.domain, g)
        y = rand_elem(L.range, g)
        a = L(x).inner(y)
        b = x.inner(L.adjoint(y))
        if abs(a - b) > 1e-9 * (abs(a) + abs(b) + 1e-12):
            raise Reject('adjoint not exact for this instance')


# --------------------------------------------------------------------------
# functionals
# --------------------------------------------------------------------------

# families usable on a plain (tensor / discretized) space
BASE_FAMILIES = ('l1', 'l2', 'l2sq', 'zero', 'box', 'nonneg', 'huber', 'kl',
                 'l2ball', 'linfball', 'l1ball', 'linf', 'const', 'quadpert',
                 'scaled_l1', 'l1_trans', 'l2sq_trans', 'l2_trans', 'kl_cc',
                 'indzero_trans')
# families with Lipschitz gradient (usable as smooth term)
SMOOTH_FAMILIES = ('l2sq', 'l2sq_trans', 'huber', 'zero', 'quadpert_smooth')


def gen_func(rng, families=BASE_FAMILIES, product=False):
    fam = rng.choice(families)
    cfg = {'fam': fam, 'seed': rng.getrandbits(32),
           'lam': rng.choice([1.0, 0.5, 2.0, 0.1, 3.0])}
    if fam == 'huber':
        cfg['gamma'] = rng.choice([0.1, 0.5, 1.0])
    return cfg


def gen_func_for(rng, space, families=BASE_FAMILIES):
    """Functional config suitable for `space` (product spaces get a
    separable sum or a group norm)."""
    o = odl()
    if isinstance(space, o.ProductSpace):
        opts = ['sepsum']
        if space.is_power_space and not isinstance(space[0], o.ProductSpace):
            opts += ['groupl1', 'l2sq_p', 'groupl1ball']
        fam = rng.choice(opts)
        cfg = {'fam': fam, 'seed': rng.getrandbits(32),
               'lam': rng.choice([1.0, 0.5, 2.0])}
        if fam == 'sepsum':
            cfg['parts'] = [gen_func_for(rng, s, families) for s in space]
        return cfg
    return gen_func(rng, families)


def build_func(cfg, S):
    """Build the odl functional described by cfg on space S."""
    o = odl()
    F = o.solvers
    fam = cfg['fam']
    lam = cfg.get('lam', 1.0)
    g = np_rng('func', cfg['seed'])
    if fam == 'l1':
        return lam * F.L1Norm(S)
    if fam == 'scaled_l1':
        return F.L1Norm(S) * lam          # right scalar mult: f(lam * x)
    if fam == 'l1_trans':
        return lam * F.L1Norm(S).translated(rand_elem(S, g))
    if fam == 'l2':
        return lam * F.L2Norm(S)
    if fam == 'l2_trans':
        return lam * F.L2Norm(S).translated(rand_elem(S, g))
    if fam == 'l2sq':
        return lam * F.L2NormSquared(S)
    if fam == 'l2sq_trans':
        return lam * F.L2NormSquared(S).translated(rand_elem(S, g))
    if fam == 'l2sq_p':
        return lam * F.L2NormSquared(S)
    if fam == 'zero':
        return F.ZeroFunctional(S)
    if fam == 'const':
        return F.ConstantFunctional(S, lam)
    if fam == 'box':
        lo = -abs(g.standard_normal()) - 0.1
        hi = abs(g.standard_normal()) + 0.1
        return F.IndicatorBox(S, lo, hi)
    if fam == 'nonneg':
        return F.IndicatorNonnegativity(S)
    if fam == 'huber':
        return lam * F.Huber(S, cfg.get('gamma', 0.5))
    if fam == 'kl':
        return lam * F.KullbackLeibler(S, prior=rand_elem(S, g, positive=True))
    if fam == 'kl_cc':
        return F.KullbackLeibler(S, prior=rand_elem(S, g, positive=True)).convex_conj
    if fam == 'l2ball':
        return F.IndicatorLpUnitBall(S, 2)
    if fam == 'linfball':
        return F.IndicatorLpUnitBall(S, np.inf)
    if fam == 'l1ball':
        return F.IndicatorLpUnitBall(S, 1)
    if fam == 'linf':
        return lam * F.LpNorm(S, np.inf)
    if fam == 'indzero_trans':
        return F.IndicatorZero(S).translated(rand_elem(S, g))
    if fam == 'quadpert':
        return F.FunctionalQuadraticPerturb(
            F.L1Norm(S), quadratic_coeff=lam, linear_term=rand_elem(S, g))
    if fam == 'quadpert_smooth':
        return F.FunctionalQuadraticPerturb(
            F.L2NormSquared(S), quadratic_coeff=lam, linear_term=rand_elem(S, g))
    if fam == 'groupl1':
        return lam * F.GroupL1Norm(S)
    if fam == 'groupl1ball':
        return F.IndicatorGroupL1UnitBall(S)
    if fam == 'sepsum':
        return F.SeparableSum(*[build_func(c, s)
                                for c, s in zip(cfg['parts'], S)])
    raise ValueError(fam)


def func_tag(cfg):
    if cfg['fam'] == 'sepsum':
        return 'sepsum(' + ','.join(func_tag(c) for c in cfg['parts']) + ')'
    return cfg['fam']


def op_tag(cfg):
    if cfg['kind'] == 'broadcast':
        return 'bc(' + ','.join(op_tag(c) for c in cfg['ops']) + ')'
    return cfg['kind']


def true_lipschitz(cfg):
    """Lipschitz constant of the gradient of a smooth family, computed by the
    harness (odl's `grad_lipschitz` attribute is C09's subject and is not
    trusted for admissibility)."""
    fam, lam = cfg['fam'], cfg.get('lam', 1.0)
    if fam in ('l2sq', 'l2sq_trans', 'l2sq_p'):
        return 2.0 * abs(lam)
    if fam == 'huber':
        return abs(lam) / cfg.get('gamma', 0.5)
    if fam == 'quadpert_smooth':
        return 2.0 + 2.0 * abs(lam)
    if fam in ('zero', 'const'):
        return 0.0
    if fam == 'sepsum':
        return max(true_lipschitz(c) for c in cfg['parts'])
    return float('inf')


def strong_convexity(cfg):
    """Modulus mu such that f - mu/2 ||.||^2 is convex (space norm), computed
    by the harness for the families where it is positive."""
    fam, lam = cfg['fam'], cfg.get('lam', 1.0)
    if fam in ('l2sq', 'l2sq_trans', 'l2sq_p', 'quadpert'):
        return 2.0 * abs(lam)
    if fam == 'quadpert_smooth':
        return 2.0 + 2.0 * abs(lam)
    if fam == 'sepsum':
        return min(strong_convexity(c) for c in cfg['parts'])
    return 0.0
