"""Core of the simulator: seed derivation, run context, violations, digests."""
import hashlib
import json
import random
from collections import Counter

import numpy as np


# --------------------------------------------------------------------------
# seeds
# --------------------------------------------------------------------------

def derive(*parts):
    """64-bit integer derived from the parts by SHA-256 (stable across runs,
    interpreters and hash seeds)."""
    h = hashlib.sha256(repr(parts).encode()).digest()
    return int.from_bytes(h[:8], 'big')


def run_seed(batch_seed, prop, r):
    return derive('run', int(batch_seed), str(prop), int(r))


def py_rng(*parts):
    return random.Random(derive(*parts))


def np_rng(*parts):
    """NumPy generator owned by the harness (never the global RNG)."""
    return np.random.Generator(np.random.PCG64(derive(*parts)))


# --------------------------------------------------------------------------
# violations
# --------------------------------------------------------------------------

class Violation(Exception):
    """A property oracle failed on real odl code."""

    def __init__(self, prop, fingerprint, message, detail=None):
        super().__init__('{}: {}: {}'.format(prop, fingerprint, message))
        self.prop = prop
        self.fingerprint = fingerprint
        self.message = message
        self.detail = detail or {}


class HarnessError(Exception):
    """The harness itself is broken (never reported as a VIOLATION)."""


class SimCrash(Exception):
    """Injected interruption (raised from a solver callback)."""


class Reject(Exception):
    """The drawn configuration is outside the domain of the property
    (constructor rejected it, precondition filter failed).  Counted, never a
    violation."""


# --------------------------------------------------------------------------
# digests
# --------------------------------------------------------------------------

def arr_bytes(a):
    a = np.asarray(a)
    return np.ascontiguousarray(a).tobytes()


def elem_arrays(x):
    """Flatten an odl element (possibly in a product space) / ndarray / scalar
    into a list of ndarrays *views* (no copies)."""
    if isinstance(x, np.ndarray):
        return [x]
    if hasattr(x, 'parts'):
        out = []
        for p in x.parts:
            out.extend(elem_arrays(p))
        return out
    if hasattr(x, 'tensor'):  # DiscretizedSpaceElement
        return elem_arrays(x.tensor)
    if hasattr(x, 'data') and isinstance(getattr(x, 'data'), np.ndarray):
        return [x.data]
    return [np.asarray(x)]


def elem_digest(x):
    h = hashlib.sha256()
    for a in elem_arrays(x):
        h.update(str(a.dtype).encode())
        h.update(str(a.shape).encode())
        h.update(arr_bytes(a))
    return h.hexdigest()[:16]


def elem_flat(x):
    """Concatenated 1-d copy of all entries (complex if any part is)."""
    arrs = [np.asarray(a).ravel() for a in elem_arrays(x)]
    if len(arrs) == 1:
        return arrs[0].copy()
    return np.concatenate(arrs)


def assign_flat(x, vals):
    """Inverse of elem_flat: write the entries back in place."""
    pos = 0
    for a in elem_arrays(x):
        n = a.size
        a[...] = np.asarray(vals[pos:pos + n]).reshape(a.shape)
        pos += n


def elem_snapshot(x):
    return [np.array(a, copy=True) for a in elem_arrays(x)]


def snapshot_equal_bits(snap, x):
    arrs = elem_arrays(x)
    if len(arrs) != len(snap):
        return False
    for s, a in zip(snap, arrs):
        if s.dtype != a.dtype or s.shape != a.shape:
            return False
        if arr_bytes(s) != arr_bytes(a):
            return False
    return True


# --------------------------------------------------------------------------
# run context
# --------------------------------------------------------------------------

class Ctx(object):
    """Per-run bookkeeping: event log, digest, counters, coverage tuples.

    Logging never draws from a PRNG and never reads a clock.
    """

    def __init__(self, seed=0, keep_log=False):
        self.seed = seed
        self.keep_log = keep_log
        self.log = []
        self._h = hashlib.sha256()
        self._h.update(('seed=%d' % seed).encode())
        self.seq = 0
        self.stats = Counter()      # fault kinds fired, probes, steps
        self.cover = set()          # distinct non-trivial coverage tuples
        self.value_bits_in_digest = True

    def event(self, what, *digests):
        """Record one simulator event (op executed / iterate observed)."""
        self.seq += 1
        rec = (self.seq, what) + tuple(digests)
        s = json.dumps(rec, sort_keys=True, default=str)
        self._h.update(s.encode())
        if self.keep_log:
            self.log.append(rec)

    def fired(self, kind, n=1):
        self.stats['fault:' + kind] += n

    def probe(self, name, n=1):
        self.stats['probe:' + name] += n

    def step(self, n=1):
        self.stats['steps'] += n

    def covered(self, *tup):
        self.cover.add('|'.join(str(t) for t in tup))

    def digest(self):
        return self._h.hexdigest()[:24]


# --------------------------------------------------------------------------
# garbage
# --------------------------------------------------------------------------

GARBAGE_KINDS = ('zero', 'nan', 'inf', 'huge', 'stale', 'denormal')

_STALE_BLOCK = {}


def _stale_block(dtype, salt):
    key = (np.dtype(dtype).str, salt % 7)
    blk = _STALE_BLOCK.get(key)
    if blk is None:
        g = np_rng('stale', key)
        dt = np.dtype(dtype)
        if dt.kind == 'c':
            blk = (g.standard_normal(1031) +
                   1j * g.standard_normal(1031)).astype(dt)
        elif dt.kind == 'f':
            blk = (3.0 * g.standard_normal(1031)).astype(dt)
        elif dt.kind in 'iu':
            blk = g.integers(-9, 10, 1031).astype(dt)
        elif dt.kind == 'b':
            blk = g.integers(0, 2, 1031).astype(dt)
        else:
            blk = None
        _STALE_BLOCK[key] = blk
    return blk


def fill_garbage(arr, kind, salt=0):
    """Overwrite `arr` (any layout) with garbage of the given kind.

    Deterministic in (dtype, size, kind, salt).  Returns the kind actually
    used (integer dtypes have no NaN/inf: they get `huge`).
    """
    dt = arr.dtype
    if arr.size == 0 or dt.kind not in 'fciub':
        return 'skip'
    if dt.kind in 'iub' and kind in ('nan', 'inf', 'denormal'):
        kind = 'huge'
    if kind == 'zero':
        arr[...] = 0
    elif kind == 'nan':
        arr[...] = np.nan
    elif kind == 'inf':
        arr[...] = np.inf if salt % 2 == 0 else -np.inf
    elif kind == 'huge':
        if dt.kind == 'b':
            arr[...] = True
        elif dt.kind in 'iu':
            info = np.iinfo(dt)
            arr[...] = info.max - 3 if salt % 2 == 0 else info.min + 3
        else:
            v = 1e30 if np.finfo(dt).max > 1e31 else 1e4
            arr[...] = v if salt % 2 == 0 else -v
            if dt.kind == 'c':
                arr[...] = v * (1 - 1j)
    elif kind == 'denormal':
        tiny = np.finfo(dt).tiny
        arr[...] = tiny / 8
    elif kind == 'stale':
        blk = _stale_block(dt, salt)
        flat = np.resize(blk, arr.size)
        arr[...] = flat.reshape(arr.shape)
    else:
        raise HarnessError('unknown garbage kind {!r}'.format(kind))
    return kind


def fill_elem(x, kind, salt=0):
    used = None
    for i, a in enumerate(elem_arrays(x)):
        used = fill_garbage(a, kind, salt + i)
    return used


# --------------------------------------------------------------------------
# array layouts
# --------------------------------------------------------------------------

def guarded_layout(vals, layout):
    """Copy of `vals` with the given memory layout ('C', 'F', 'strided'),
    carved out of the middle of a larger zeroed buffer.

    The guard zones are not decoration.  NumPy's inner loops choose between
    their SIMD and scalar bodies with an overlap test on the *phantom* extent
    ``start + stride * len`` of each operand, which for a strided operand
    reaches past its last element; when an unrelated heap block happens to
    lie there the scalar body runs, and e.g. complex multiply then differs
    in the last bit (no FMA).  Without guard zones the bits a call returns
    depend on where malloc put the operands (seen twice in 4M C17 runs), so
    every array the harness hands to odl keeps foreign blocks out of reach.
    """
    vals = np.asarray(vals)
    shape = vals.shape
    if vals.ndim == 0 or vals.size == 0:
        return np.array(vals, copy=True)
    if layout == 'strided':
        inner = shape[:-1] + (2 * shape[-1] + 1,)
    else:
        inner = shape
    total = 1
    for n in inner:
        total *= n
    pad = total + 16
    if layout == 'unaligned' and vals.dtype.itemsize > 1:
        # contiguous but starting at an odd address (a view into a byte
        # buffer): flags.aligned is False
        raw = np.zeros((total + 2 * pad) * vals.dtype.itemsize + 1,
                       dtype=np.uint8)
        off = 1 if raw.ctypes.data % 2 == 0 else 2
        off = off if (raw.ctypes.data + off) % vals.dtype.itemsize else off + 1
        buf = raw[off:off + (total + 2 * pad) * vals.dtype.itemsize
                  - vals.dtype.itemsize].view(vals.dtype)
    else:
        buf = np.zeros(total + 2 * pad, dtype=vals.dtype)
    mid = buf[pad:pad + total]
    if layout == 'F':
        arr = mid.reshape(shape[::-1]).T
    elif layout == 'strided':
        arr = mid.reshape(inner)[..., 1::2]
    else:
        arr = mid.reshape(shape)
    arr[...] = vals
    return arr


# --------------------------------------------------------------------------
# tolerance helpers
# --------------------------------------------------------------------------

def eps_of(dtype):
    dt = np.dtype(dtype)
    if dt.kind in 'fc':
        return float(np.finfo(dt).eps)
    return 0.0


def max_abs(a):
    a = np.asarray(a)
    if a.size == 0:
        return 0.0
    with np.errstate(all='ignore'):
        return float(np.max(np.abs(a)))


def rel_err(a, b, scale=None):
    """max |a-b| / max(scale, tiny) with NaN -> inf."""
    a = np.asarray(a)
    b = np.asarray(b)
    if a.shape != b.shape:
        return float('inf')
    if a.size == 0:
        return 0.0
    with np.errstate(all='ignore'):
        d = np.abs(a.astype(np.complex128 if (a.dtype.kind == 'c' or b.dtype.kind == 'c') else np.float64) - b)
        if not np.all(np.isfinite(d)):
            # equal infinities/NaNs at equal places are not our business: the
            # harness never generates them as legitimate values
            return float('inf')
        s = max(max_abs(a), max_abs(b), 1e-300) if scale is None else max(scale, 1e-300)
        return float(np.max(d)) / s
