"""Seams the simulator owns (all harness-side; module-attribute lookup is the
seam the code already has).

* allocator: numpy.empty / numpy.empty_like / pyfftw.empty_aligned fill the
  fresh block with planned garbage when the *calling frame* belongs to an
  ``odl.*`` module.  Calls from NumPy/SciPy internals pass through.
* process RNG: numpy.random.permutation is wrapped so that every permutation
  odl draws is logged and, when a schedule is supplied, forced from it.
* knobs: size thresholds of odl.space.npy_tensors.
"""
import sys
from contextlib import contextmanager

import numpy as np

from .core import fill_garbage, HarnessError

_real_empty = np.empty
_real_empty_like = np.empty_like
_real_permutation = np.random.permutation
_real_pyfftw_empty_aligned = None


class _AllocState(object):
    kind = 'off'          # 'off' => untouched real allocator
    kinds = None          # optional per-call cycle of kinds ("mix")
    calls = 0             # allocations intercepted from odl frames
    fired = None          # Counter-like dict kind -> count
    salt = 0


ALLOC = _AllocState()


def _caller_is_odl(depth=2):
    try:
        f = sys._getframe(depth)
    except ValueError:
        return False
    name = f.f_globals.get('__name__', '')
    return name.startswith('odl.') or name == 'odl'


def _garble(arr):
    st = ALLOC
    st.calls += 1
    kind = st.kind
    if st.kinds:
        kind = st.kinds[st.calls % len(st.kinds)]
    used = fill_garbage(arr, kind, st.salt + st.calls)
    if st.fired is not None:
        st.fired[used] = st.fired.get(used, 0) + 1
    return arr


def _empty(*args, **kwargs):
    arr = _real_empty(*args, **kwargs)
    if ALLOC.kind != 'off' and _caller_is_odl():
        _garble(arr)
    return arr


def _empty_like(*args, **kwargs):
    arr = _real_empty_like(*args, **kwargs)
    if ALLOC.kind != 'off' and _caller_is_odl():
        _garble(arr)
    return arr


def _pyfftw_empty_aligned(*args, **kwargs):
    arr = _real_pyfftw_empty_aligned(*args, **kwargs)
    if ALLOC.kind != 'off' and _caller_is_odl():
        _garble(arr)
    return arr


_empty.__name__ = 'empty'
_empty_like.__name__ = 'empty_like'

_installed = False


def install():
    """Install the seams once per process (idempotent)."""
    global _installed, _real_pyfftw_empty_aligned
    if _installed:
        return
    np.empty = _empty
    np.empty_like = _empty_like
    np.random.permutation = _permutation
    try:
        import pyfftw
        _real_pyfftw_empty_aligned = pyfftw.empty_aligned
        pyfftw.empty_aligned = _pyfftw_empty_aligned
    except ImportError:  # pragma: no cover
        pass
    _installed = True


@contextmanager
def allocator(kind, salt=0, fired=None, kinds=None):
    """Within the block, odl's uninitialised allocations hold `kind`."""
    if not _installed:
        raise HarnessError('seams not installed')
    old = (ALLOC.kind, ALLOC.salt, ALLOC.fired, ALLOC.kinds, ALLOC.calls)
    ALLOC.kind, ALLOC.salt, ALLOC.fired, ALLOC.kinds = kind, salt, fired, kinds
    ALLOC.calls = 0
    try:
        yield ALLOC
    finally:
        ALLOC.kind, ALLOC.salt, ALLOC.fired, ALLOC.kinds, ALLOC.calls = old


# --------------------------------------------------------------------------
# process RNG seam
# --------------------------------------------------------------------------

class _PermState(object):
    forced = None      # list of permutations (lists) to hand out, or None
    pos = 0
    drawn = None       # log of permutations handed to odl


PERM = _PermState()


def _permutation(x):
    if not _caller_is_odl():
        return _real_permutation(x)
    st = PERM
    if st.forced is not None:
        n = len(x) if hasattr(x, '__len__') else int(x)
        if st.pos < len(st.forced):
            p = list(st.forced[st.pos])
        else:
            p = list(range(n))
        st.pos += 1
        if sorted(p) != list(range(n)):
            raise HarnessError('forced permutation {} invalid for n={}'
                               ''.format(p, n))
        res = np.array(p)
    else:
        res = _real_permutation(x)
    if st.drawn is not None:
        st.drawn.append([int(i) for i in res])
    return res


@contextmanager
def schedule(forced=None, record=None):
    """Force (and/or record) every permutation odl draws in the block."""
    old = (PERM.forced, PERM.pos, PERM.drawn)
    PERM.forced, PERM.pos, PERM.drawn = forced, 0, record
    try:
        yield PERM
    finally:
        PERM.forced, PERM.pos, PERM.drawn = old


# --------------------------------------------------------------------------
# knobs
# --------------------------------------------------------------------------

@contextmanager
def thresholds(small=None, medium=None):
    import odl.space.npy_tensors as nt
    old = (nt.THRESHOLD_SMALL, nt.THRESHOLD_MEDIUM)
    if small is not None:
        nt.THRESHOLD_SMALL = small
    if medium is not None:
        nt.THRESHOLD_MEDIUM = medium
    try:
        yield
    finally:
        nt.THRESHOLD_SMALL, nt.THRESHOLD_MEDIUM = old


def begin_run(global_seed):
    """Reset every process-global piece of state a run could inherit."""
    np.random.seed(global_seed % (2 ** 32))
    np.seterr(all='ignore')
    import warnings
    warnings.simplefilter('ignore')
