"""poolsim -- simulation engine for C01 (vector arithmetic under aliasing) and
C17 (ufuncs / shared memory; see c17.py).

System: a pool of live elements of one space whose buffers are written in
place by a history of arithmetic operations with every identity-aliasing
pattern of (x1, x2, out).  Faults: garbage in caller-owned out buffers and in
every internal allocation, size-threshold knobs.  Oracle: an independent
entry-wise value model (extended precision / exact integers) evaluated on a
snapshot taken before each operation; non-output storage bitwise unchanged;
bit-identical result under a second garbage kind.
"""
import copy
import operator

import numpy as np

from ..core import (Violation, Reject, HarnessError, np_rng, elem_arrays,
                    fill_garbage, elem_digest, guarded_layout)
from .. import seams
from .. import spaces as SP

GARBAGE = ('nan', 'huge', 'stale', 'inf', 'denormal', 'zero')
SHIPPED = (100, 50000)

TIERS = {
    'C01': {'quick': {'runs': 80000, 'budget_s': 100, 'chunk': 100},
            'thorough': {'runs': 2400000, 'budget_s': 1800, 'chunk': 400}},
    'C17': {'quick': {'runs': 120000, 'budget_s': 100, 'chunk': 200},
            'thorough': {'runs': 4000000, 'budget_s': 1800, 'chunk': 1000}},
}

RULE = {
    'C01': ('Each run draws a space (tensor / discretized / power / '
            'heterogeneous / nested product, dtype, per-element memory '
            'layout C/F/strided, size relative to the two size thresholds, '
            'thresholds shipped or patched), a pool of 3-5 live elements '
            '(product-space containers may share parts) and a history of '
            '6-30 arithmetic operations with operand/out indices drawn '
            'independently (all five identity-aliasing patterns). Distinct '
            'by (call form, aliasing pattern, size regime, dtype kind, '
            'layout class, scalar classes, space kind); non-trivial when the '
            'operation has >= 2 entries and a non-zero result.'),
    'C17': ('Each run draws a space and a set of storages with several '
            'handles each (raw array, wrapping element, asarray view, '
            'product-space part) and a history of ufunc calls / writes '
            'through any handle; distinct by (ufunc, method, out kind, '
            'alias pattern, dtype kind, space kind).'),
}

COMPONENTS = {
    'real': ['odl spaces and elements (tensor, discretized, product) from '
             '/repo working tree', 'numpy', 'scipy BLAS (axpy/scal/copy)'],
    'stub': ['allocator fill wrapper', 'garbage written into caller-owned '
             'out elements', 'patched THRESHOLD_SMALL/THRESHOLD_MEDIUM '
             '(violations are re-executed with shipped thresholds and sizes '
             'moved into the same regime before being reported)',
             'extended-precision / exact-integer value model'],
}

ASSUMPTIONS = {
    'C01': ['operand values are O(1) numbers, in 12% of the runs on real '
            'floating dtypes with one to three +-inf/NaN entries (IEEE model; '
            'a term with an exactly zero scalar may be dropped and x1 is x2 '
            'may be evaluated as (a+b)*x1, as the other size regimes do); '
            'scalars from {0, 1, -1, generic in [1e-3, 1e3], generic '
            'complex}; integer spaces get integer scalars and no division',
            'dtypes float64/32, complex128/64, float16, int64/32/16 and '
            'byte-swapped >f8 >f4 >i4 (no longdouble: padding bytes defeat '
            'bitwise comparison); for float16 the quotient operand/scalar of '
            'odl\'s copy-free axpy has to stay below the dtype maximum',
            'every array handed to odl is carved out of a larger zeroed '
            'block (guard zones): NumPy inner-loop selection depends on what '
            'lies one stride behind a strided operand',
            'tolerance 16*eps*entrywise magnitude bound per operation; model '
            'resynchronised to the actual buffers after every operation',
            'aliasing = object identity (and same-index shared parts of '
            'product-space containers), not arbitrary memory overlap',
            'a clean batch is evidence, not proof'],
    'C17': ['numbers are compared bit-for-bit with NumPy on model arrays of '
            'identical strides, both inside guard zones (NumPy loop selection '
            'is stride and address dependent)',
            'weight propagation of reduced spaces is not judged',
            'a clean batch is evidence, not proof'],
}

# native dtypes mostly; byte-swapped (non-native endian) ones are legal
# NumPy dtypes that odl supports and that BLAS does not
FLOAT_DTYPES = ['float64'] * 6 + ['float32'] * 3 + ['complex128'] * 3 + \
    ['complex64'] * 3 + ['>f8', '>f4', 'float16']
INT_DTYPES = ['int64'] * 3 + ['int32'] * 3 + ['>i4', 'int16']


# --------------------------------------------------------------------------
# generation
# --------------------------------------------------------------------------

def _gen_size(rng, thresholds):
    ts, tm = thresholds
    r = rng.random()
    if r < 0.35:
        return rng.randint(1, max(2, ts - 1)), 'small'
    if r < 0.55:
        return ts + rng.choice([-1, 0, 1]), 'Ts'
    if r < 0.80:
        return rng.randint(ts, tm - 1) if tm - 1 > ts else ts, 'medium'
    if r < 0.93:
        return tm + rng.choice([-1, 0, 1]), 'Tm'
    return tm + rng.randint(2, 8), 'blas'


def _shape_for(rng, n):
    if n >= 2 and rng.random() < 0.4:
        for p in (2, 3, 5):
            if n % p == 0 and n // p >= 1:
                if rng.random() < 0.3 and (n // p) % 2 == 0 and n // p >= 2:
                    return [p, 2, n // p // 2]
                return [p, n // p]
    return [n]


def gen_leaf_space(rng, thresholds):
    n, regime = _gen_size(rng, thresholds)
    n = max(1, n)
    kind = rng.choice(['tensor', 'tensor', 'tensor', 'discr'])
    isint = rng.random() < 0.2
    dtype = rng.choice(INT_DTYPES if isint else FLOAT_DTYPES)
    shape = _shape_for(rng, n)
    if n == 1 and kind == 'tensor' and rng.random() < 0.15:
        shape = []          # tensor space with shape ()
    if kind == 'discr' and not isint and dtype not in ('float16',
                                                       'longdouble'):
        return {'k': 'discr', 'shape': shape, 'len': [1.0] * len(shape),
                'dtype': dtype}, regime
    cfg = {'k': 'tensor', 'shape': shape, 'dtype': dtype}
    if not isint:
        # weighting / exponent do not enter the arithmetic, but they are part
        # of the space every result has to belong to
        r = rng.random()
        if r < 0.15:
            cfg['weighting'] = rng.choice([0.5, 2.0])
        elif r < 0.25:
            cfg['weighting'] = 'array'
        elif r < 0.32:
            cfg['exponent'] = rng.choice([1.0, float('inf'), 1.5])
    return cfg, regime


def generate(prop, rng, tier):
    if prop == 'C17':
        from . import c17
        return c17.generate(rng, tier)
    r = rng.random()
    if r < 0.70:
        thresholds = [rng.choice([3, 4, 6]), rng.choice([9, 12, 16])]
    elif r < 0.95:
        thresholds = [SHIPPED[0], rng.choice([140, 200])]   # shipped small
    else:
        thresholds = list(SHIPPED)
    leaf, regime = gen_leaf_space(rng, thresholds)
    struct = rng.choices(['leaf', 'power', 'hetero', 'nested'],
                         [6, 2, 1, 1])[0]
    if thresholds[1] >= 50000 and regime in ('Tm', 'blas', 'medium'):
        struct = 'leaf'
    cfg = {'leaf': leaf, 'struct': struct, 'regime': regime}
    if struct == 'power':
        cfg['n'] = rng.randint(1, 3)
    elif struct == 'hetero':
        leaf2, _ = gen_leaf_space(rng, thresholds)
        leaf2['dtype'] = leaf['dtype']
        if np.dtype(leaf['dtype']).kind in 'iu' or leaf['dtype'] in (
                'float16', 'longdouble'):
            leaf2.pop('weighting', None)
            leaf2.pop('exponent', None)
            if leaf2['k'] == 'discr' and leaf['dtype'] in ('float16',
                                                           'longdouble'):
                leaf2 = {'k': 'tensor', 'shape': leaf2['shape'],
                         'dtype': leaf['dtype']}
        cfg['leaf2'] = leaf2
    elif struct == 'nested':
        cfg['n'] = rng.randint(1, 2)
        cfg['m'] = rng.randint(1, 2)
    if struct == 'leaf' and rng.random() < 0.15:
        # two pool members that are different views (other strides) of one
        # buffer starting at the same address: distinct operands, read only
        cfg['overlap'] = True
    if struct != 'leaf' and rng.random() < 0.3:
        # exponent / weighting of the product space itself: part of the space
        # every result has to belong to
        cfg['pkw'] = rng.choice([{'exponent': 1.0}, {'exponent': float('inf')},
                                 {'exponent': 1.5}, {'weighting': 0.5},
                                 {'weighting': 'array'}])
    big = thresholds[1] >= 50000 and regime in ('Tm', 'blas')
    npool = rng.randint(3, 5)
    cfg['layouts'] = [rng.choice(['C', 'C', 'F', 'strided', 'C'])
                      for _ in range(npool * 4)]
    if rng.random() < 0.08:
        # contiguous arrays at an odd address (BLAS wrappers copy those)
        cfg['layouts'] = [l if rng.random() < 0.5 else 'unaligned'
                          for l in cfg['layouts']]
    cfg['shared'] = []
    if struct != 'leaf':
        for _ in range(rng.randint(0, 2)):
            a, b = rng.sample(range(npool), 2)
            cfg['shared'].append([a, b, rng.randint(0, 3)])
    isint = np.dtype(leaf['dtype']).kind in 'iu'
    iscomplex = np.dtype(leaf['dtype']).kind == 'c'
    nops = rng.randint(4, 8) if big else rng.randint(6, 30)
    ops = [gen_op(rng, npool, isint, iscomplex, struct) for _ in range(nops)]
    plan = {'space': cfg, 'thresholds': thresholds, 'npool': npool,
            'ops': ops, 'garbage': rng.sample(GARBAGE[:5], 2),
            'global_seed': rng.getrandbits(31), 'xseed': rng.getrandbits(32)}
    if not isint and not iscomplex and rng.random() < 0.12:
        # "all element values": a few +-inf / NaN entries in the pool (real
        # floating dtypes only: the entry-wise model is IEEE arithmetic)
        plan['nf'] = [[rng.randrange(npool), rng.getrandbits(16),
                       rng.choice(['inf', 'inf', '-inf', 'nan'])]
                      for _ in range(rng.randint(1, 3))]
        plan['ops'] = ops[:12]
    return plan


def gen_scalar(rng, isint, iscomplex):
    r = rng.random()
    if r < 0.2:
        return 0
    if r < 0.4:
        return 1
    if r < 0.55:
        return -1
    if isint:
        return rng.choice([2, 3, -2, 5])
    if iscomplex and rng.random() < 0.5:
        if rng.random() < 0.3:
            # non-real scalars of modulus EXACTLY one (seed z01): 1/a is
            # conj(a) there, not a -- shortcuts keyed on abs(a) == 1
            return rng.choice([[0.0, 1.0], [0.0, -1.0], [0.6, 0.8],
                               [-0.8, 0.6], [0.6, -0.8], [-0.28, 0.96]])
        if rng.random() < 0.25:        # purely imaginary
            return [0.0, round(rng.uniform(-2, 2), 3) or 1.0]
        return [round(rng.uniform(-2, 2), 3), round(rng.uniform(-2, 2), 3)]
    mag = 10 ** rng.uniform(-3, 3) if rng.random() < 0.3 else rng.uniform(0.1, 3)
    return round(mag * rng.choice([1, -1]), 6)


FORMS = [
    ('S.lincomb(a,xi,b,xj,out=xk)', 10), ('S.lincomb(a,xi,b,xj)', 2),
    ('S.lincomb(a,xi,out=xk)', 3), ('S.lincomb(a,xi)', 1),
    ('xk.lincomb(a,xi,b,xj)', 3), ('xk.lincomb(a,xi)', 1),
    ('xi+xj', 2), ('xi-xj', 2), ('xi*xj', 2), ('xi/xj', 1),
    ('xk+=xj', 2), ('xk-=xj', 2), ('xk*=xj', 2), ('xk/=xj', 1),
    ('xi+a', 1), ('a+xi', 1), ('xi-a', 1), ('a-xi', 1), ('xi*a', 1),
    ('a*xi', 1), ('xi/a', 1), ('a/xi', 1),
    ('xk+=a', 1), ('xk-=a', 1), ('xk*=a', 1), ('xk/=a', 1),
    ('xi**n', 1), ('xk**=n', 1), ('-xi', 1), ('+xi', 1),
    ('S.multiply(xi,xj,out=xk)', 3), ('S.divide(xi,xj,out=xk)', 2),
    ('S.multiply(xi,xj)', 1), ('S.divide(xi,xj)', 1),
    ('xi.multiply(xj,out=xk)', 1), ('xi.divide(xj,out=xk)', 1),
    ('rawj-xi', 1), ('rawj+xi', 1), ('other-precision', 1),
    ('xk.assign(xi)', 2), ('xi.copy()', 1), ('xk.set_zero()', 2),
    ('S.zero()', 1), ('S.one()', 1),
    ('X+x0', 1), ('x0+X', 1), ('X-x0', 1), ('x0-X', 1), ('X*x0', 1),
    ('X/x0', 1), ('X+=x0', 1), ('X-=x0', 1), ('X*=x0', 1), ('X/=x0', 1),
]
INT_EXCLUDED = ('/', 'divide', '**')
RAW_FORMS = ('xi+xj', 'xi-xj', 'xi*xj', 'xi/xj', 'xk+=xj', 'xk-=xj', 'xk*=xj',
             'xk/=xj', 'rawj-xi', 'rawj+xi')


def gen_op(rng, npool, isint, iscomplex, struct):
    while True:
        form = rng.choices([f for f, _ in FORMS], [w for _, w in FORMS])[0]
        if isint and any(t in form for t in INT_EXCLUDED):
            continue
        if 'x0' in form and struct != 'power':
            continue
        break
    op = {'f': form, 'i': rng.randrange(npool), 'j': rng.randrange(npool),
          'k': rng.randrange(npool)}
    # bias towards aliasing
    r = rng.random()
    if r < 0.15:
        op['j'] = op['i']
    elif r < 0.30:
        op['k'] = op['i']
    elif r < 0.45:
        op['k'] = op['j']
    elif r < 0.55:
        op['i'] = op['j'] = op['k']
    if 'a' in form.replace('assign', '').replace('S.divide', 'S.d'):
        op['a'] = gen_scalar(rng, isint, iscomplex)
    if ',b,' in form:
        op['b'] = gen_scalar(rng, isint, iscomplex)
    if form == 'other-precision':
        op['a'] = gen_scalar(rng, isint, iscomplex)
    if 'x0' in form and rng.random() < 0.25:
        op['own'] = rng.randrange(3)
    if '**' in form:
        op['n'] = rng.choice([0, 1, 2, 3, 4, 5, 6, -1, -2, -3])
    op['fill'] = rng.choice(GARBAGE)
    if form in RAW_FORMS and (rng.random() < 0.15 or form.startswith('raw')):
        # the second operand as a raw array of the space's dtype and shape
        # (a list of arrays on product spaces) instead of an element: odl
        # wraps it without copying (seed a01: the caller's array must not be
        # written to, nor aliased by the result)
        op['raw'] = True
    if rng.random() < 0.2 and form not in ('a+xi', 'a-xi', 'a*xi', 'a/xi'):
        # the scalars as NumPy scalar types instead of Python numbers.  Not
        # np.float32 (odl adds two such scalars in float32, which is what the
        # caller asked for, but not what a float64 model computes) and not as
        # LEFT operand of a binary operator (NumPy's scalar types then take
        # over and call the ufunc machinery: C17's subject, with NumPy's
        # dtype promotion instead of "the result is in the space")
        op['stype'] = rng.choice(['np.int64', 'np.int32'] if isint else
                                 ['np.float64', 'np.float64', 'np.int64',
                                  'np.complex128', 'np.complex64',
                                  'np.float32'])
    if struct != 'leaf' and 'x0' not in form and rng.random() < 0.25:
        # operate on the p-th *parts* of the containers (elements of the
        # component space that are at the same time parts of live containers)
        op['part'] = rng.randrange(4)
    elif struct != 'leaf' and 'x0' not in form and rng.random() < 0.2:
        # operate on sub-elements X[[i, j]] / X[a:b] of the containers: they
        # share their parts with the containers, so in-place arithmetic on
        # them is in-place arithmetic on the containers
        if rng.random() < 0.6:
            op['sub'] = ['list'] + rng.sample(range(4), rng.randint(1, 3))
        else:
            op['sub'] = ['slice', rng.choice([0, 0, 1]), rng.choice([1, 2, 3])]
    return op


def simplify(prop, plan):
    if prop == 'C17':
        from . import c17
        for c in c17.simplify(plan):
            yield c
        return
    for i, op in enumerate(plan.get('ops', [])):
        if op.get('fill') not in ('huge', 'zero'):
            c = copy.deepcopy(plan)
            c['ops'][i]['fill'] = 'huge'
            yield c
    sp = plan['space']
    if sp.get('shared'):
        c = copy.deepcopy(plan)
        c['space']['shared'] = []
        yield c
    if any(l != 'C' for l in sp['layouts']):
        c = copy.deepcopy(plan)
        c['space']['layouts'] = ['C'] * len(sp['layouts'])
        yield c


# --------------------------------------------------------------------------
# pool construction
# --------------------------------------------------------------------------

def _leaf_array(shape, dtype, layout, g, positive=False):
    vals = SP.rand_array(shape, dtype, g, positive=positive)
    if np.dtype(dtype).kind in 'iu':
        vals = np.asarray(g.integers(-3, 4, size=shape)).astype(dtype)
    return guarded_layout(vals, layout)


class Pool(object):
    def __init__(self, plan):
        o = SP.odl()
        cfg = plan['space']
        self.cfg = cfg
        try:
            self.leafspace = SP.build_space(cfg['leaf'])
            leaf2 = SP.build_space(cfg['leaf2']) if 'leaf2' in cfg else None
        except (ValueError, TypeError, KeyError) as e:
            raise Reject('rejected_config: ' + str(e)[:80])
        st = cfg['struct']
        self.base = None

        def pkw(n):
            kw = dict(cfg.get('pkw') or {})
            if kw.get('weighting') == 'array':
                kw['weighting'] = [0.5 + 0.75 * j for j in range(n)]
            return kw

        try:
            if st == 'leaf':
                self.S = self.leafspace
            elif st == 'power':
                self.S = o.ProductSpace(self.leafspace, cfg['n'],
                                        **pkw(cfg['n']))
                self.base = self.leafspace
            elif st == 'hetero':
                self.S = o.ProductSpace(self.leafspace, leaf2, **pkw(2))
            else:
                inner = o.ProductSpace(self.leafspace, cfg['m'],
                                       **pkw(cfg['m']))
                self.S = o.ProductSpace(inner, cfg['n'], **pkw(cfg['n']))
        except (ValueError, TypeError) as e:
            raise Reject('rejected_config: ' + str(e)[:80])
        g = np_rng('pool', plan['xseed'])
        self._lay = iter(cfg['layouts'] * 8)
        self.objs = [self._make(self.S, g) for _ in range(plan['npool'])]
        for a, b, idx in cfg.get('shared', []):
            # container b shares the part at the same index with container a
            pa, pb = self.objs[a], self.objs[b]
            if hasattr(pa, 'parts') and len(pa) > 0:
                i = idx % len(pa)
                parts = list(pb.parts)
                parts[i] = pa.parts[i]
                self.objs[b] = self.S.element(parts)
        self.readonly = set()
        if cfg.get('overlap') and st == 'leaf':
            shp = tuple(self.S.shape)
            dt = self.S.dtype
            pair = None
            if len(shp) == 1 and shp[0] >= 2:
                n = shp[0]
                big = guarded_layout(SP.rand_array((2 * n,), dt, g), 'C')
                pair = (big[:n], big[::2])
            elif len(shp) == 2 and shp[0] == shp[1] and shp[0] >= 2:
                big = guarded_layout(SP.rand_array(shp, dt, g), 'C')
                pair = (big, big.T)
            if pair is not None:
                for q, arr in enumerate(pair):
                    e = self.S.element(arr)
                    if np.shares_memory(elem_arrays(e)[0], arr):
                        self.objs[q] = e
                        self.readonly.add(id(e))
        self.x0 = [self._make(self.base, g) for _ in range(2)] \
            if self.base is not None else []
        for obj, pos, what in plan.get('nf', []):
            arrs = elem_arrays(self.objs[obj % len(self.objs)])
            arr = arrs[pos % len(arrs)]
            if arr.size:
                arr[np.unravel_index(pos % arr.size, arr.shape)] = float(what)
        dt = np.dtype(cfg['leaf']['dtype'])
        self.isint = dt.kind in 'iu'
        self.mdt = (np.int64 if self.isint else
                    np.clongdouble if dt.kind == 'c' else np.longdouble)
        self.eps = 0.0 if self.isint else float(np.finfo(dt).eps)
        self.tiny = 0.0 if self.isint else float(np.finfo(dt).tiny)

    def _make(self, space, g):
        o = SP.odl()
        if isinstance(space, o.ProductSpace):
            return space.element([self._make(s, g) for s in space])
        arr = _leaf_array(space.shape, space.dtype, next(self._lay), g)
        x = space.element(arr)
        if not np.shares_memory(elem_arrays(x)[0], arr):
            # wrapping copied: still a valid element, just another layout
            pass
        return x

    # all distinct leaf arrays reachable from the pool: key -> array
    def leaves(self):
        out = {}
        for x in self.objs + self.x0:
            for a in elem_arrays(x):
                out[_key(a)] = a
        return out


def _key(a):
    return (a.__array_interface__['data'][0], a.shape, a.strides, a.dtype.str)


def _keys(x):
    return [_key(a) for a in elem_arrays(x)]


# --------------------------------------------------------------------------
# the value model (entry-wise, leaf by leaf)
# --------------------------------------------------------------------------

def _scalar(v):
    if isinstance(v, list):
        return complex(v[0], v[1])
    return v


def _as_numpy_scalar(v, stype, pool):
    """The same number carried by a NumPy scalar type (where that type can
    hold it and the field of the space accepts it)."""
    iscomplex = np.dtype(pool.cfg['leaf']['dtype']).kind == 'c'
    if isinstance(v, complex):
        if stype == 'np.complex64' and str(np.dtype(
                pool.cfg['leaf']['dtype'])) == 'complex64':
            return np.complex64(v)
        return np.complex128(v) if stype == 'np.complex128' else v
    if stype in ('np.int64', 'np.int32'):
        if float(v) != int(v):
            return v
        return getattr(np, stype[3:])(int(v))
    if stype == 'np.complex128':
        return np.complex128(v) if iscomplex else v
    if pool.isint:
        return v
    ldt = str(np.dtype(pool.cfg['leaf']['dtype']))
    if stype == 'np.complex64':
        # single precision scalars only on single precision spaces (whose
        # tolerance covers arithmetic done on the scalars themselves)
        return np.complex64(v) if ldt == 'complex64' else v
    if stype == 'np.float32':
        return np.float32(v) if ldt in ('float32', 'complex64') else v
    return getattr(np, stype[3:])(v)


def model_leaf(kind, A, B, a, b, n, mdt):
    """Expected value and entry-wise magnitude bound of one leaf."""
    with np.errstate(all='ignore'):
        if kind == 'lin':
            val = mdt(a) * A + mdt(b) * B if mdt is not np.int64 else a * A + b * B
            mag = abs(a) * np.abs(A) + abs(b) * np.abs(B)
        elif kind == 'lin1':       # a * A only (B unused)
            val = mdt(a) * A if mdt is not np.int64 else a * A
            mag = abs(a) * np.abs(A)
        elif kind == 'mul':
            val = A * B
            mag = np.abs(val)
        elif kind == 'div':
            val = A / B
            mag = np.abs(val)
        elif kind == 'rdiv':       # a / B
            val = mdt(a) / B
            mag = np.abs(val)
        elif kind == 'pow':
            val = A ** n if n >= 0 else 1 / (A ** (-n))
            mag = np.abs(val) * (abs(n) + 1)
        else:
            raise HarnessError(kind)
    return val, mag


# --------------------------------------------------------------------------
# execution
# --------------------------------------------------------------------------

def execute(prop, plan, ctx):
    if prop == 'C17':
        from . import c17
        return c17.execute(plan, ctx)
    seams.begin_run(plan.get('global_seed', 0))
    th = plan['thresholds']
    try:
        _execute(plan, ctx, th)
    except Violation as v:
        if tuple(th) == SHIPPED:
            raise
        # knob soundness rule: only a discrepancy that reproduces with the
        # shipped thresholds (sizes moved into the same regime) is reported
        moved = _move_to_shipped(plan)
        if moved is None:
            ctx.probe('knob-only-unmovable')
            return
        from ..core import Ctx
        try:
            _execute(moved, Ctx(), list(SHIPPED))
        except Violation as v2:
            if v2.fingerprint == v.fingerprint:
                v2.message += ' [first seen with patched thresholds {}; ' \
                    'reproduced with the shipped ones]'.format(th)
                raise v2
        except Reject:
            pass
        ctx.probe('knob-only')


def _move_to_shipped(plan):
    """Same plan with shipped thresholds and the leaf size moved into the same
    regime: size' = shipped_T + (size - patched_T) relative to the nearer
    threshold."""
    p = copy.deepcopy(plan)
    ts, tm = plan['thresholds']

    def move(leaf):
        if leaf['shape'] == []:
            return 1        # shape (): in the small regime under any knobs
        n = int(np.prod(leaf['shape']))
        if n < ts:
            n2 = n if n < SHIPPED[0] else SHIPPED[0] - 1
        elif n < tm:
            n2 = SHIPPED[0] + (n - ts)
        else:
            n2 = SHIPPED[1] + (n - tm)
        leaf['shape'] = [n2]
        if leaf.get('len'):
            leaf['len'] = [1.0]
        return n2

    n2 = move(p['space']['leaf'])
    if 'leaf2' in p['space']:
        move(p['space']['leaf2'])
    if n2 >= SHIPPED[1] and p['space']['struct'] != 'leaf':
        return None
    p['thresholds'] = list(SHIPPED)
    if n2 >= SHIPPED[1]:
        p['ops'] = p['ops'][:12]
    return p


def _execute(plan, ctx, th):
    with seams.thresholds(th[0], th[1]):
        with seams.allocator('zero'):
            pool = Pool(plan)
        run = Run(plan, pool, ctx)
        for op in plan['ops']:
            try:
                run.step(op)
            except Reject:
                continue
            ctx.step()
        if run.pending is not None:
            raise run.pending


class Run(object):
    def __init__(self, plan, pool, ctx):
        self.plan, self.pool, self.ctx = plan, pool, ctx
        self.k1, self.k2 = plan['garbage']
        self.th = plan['thresholds']
        self.nf = bool(plan.get('nf'))
        self.pending = None

    def viol(self, what, site, msg):
        raise Violation('C01', 'C01/{}/{}'.format(what, site), msg)

    def step_other_precision(self, op):
        """A lincomb on the twin space of the OTHER precision (float64 <->
        float32, complex128 <-> complex64) between the operations on the
        pool: the same process does arithmetic in both (seed b01: anything
        odl keeps at module level must be keyed by precision too)."""
        leaf = self.pool.cfg['leaf']
        twin = {'float64': 'float32', 'float32': 'float64',
                'complex128': 'complex64', 'complex64': 'complex128'}.get(
                    leaf['dtype'])
        if twin is None or leaf['k'] != 'tensor':
            raise Reject('no twin precision')
        c = dict(leaf)
        c['dtype'] = twin
        try:
            S2 = SP.build_space(c)
        except (ValueError, TypeError, KeyError) as e:
            raise Reject('rejected_config: ' + str(e)[:80])
        g = np_rng('twin', self.plan['xseed'], op.get('i', 0), op.get('k', 0))
        shp = tuple(leaf['shape'])
        with seams.allocator('zero'):
            u, v, w = [S2.element(SP.rand_array(shp, twin, g))
                       for _ in range(3)]
        a = _scalar(op.get('a', 1))
        a = a if not isinstance(a, complex) or np.dtype(twin).kind == 'c' \
            else a.real
        uv, vv = u.asarray().astype(np.clongdouble), \
            v.asarray().astype(np.clongdouble)
        fill_garbage(w.data, op['fill'], 5)
        with seams.allocator(self.k1, salt=33):
            try:
                ret = S2.lincomb(a, u, 1, v, out=w)
            except Exception as e:
                self.viol('raise', 'other-precision/' + type(e).__name__,
                          'lincomb on the twin space {!r} raised {}: {}'.format(
                              S2, type(e).__name__, str(e)[:160]))
        exp = a * uv + vv
        eps = float(np.finfo(np.dtype(twin)).eps)
        tol = 16 * eps * (abs(a) * np.abs(uv) + np.abs(vv) + np.abs(exp)) + \
            1e-30
        if ret is not w or np.any(np.abs(w.asarray() - exp) > tol):
            self.viol('value', 'other-precision/' + self.regime(),
                      'lincomb(a, u, 1, v, out=w) on the twin space {!r} of '
                      'the other precision, executed between the operations '
                      'on {}, is off by {:.3g}'.format(
                          S2, self.describe(),
                          float(np.max(np.abs(w.asarray() - exp)))))
        self.ctx.fired('other-precision-lincomb')
        self.ctx.event('other-precision', twin)

    def _check_raw(self, raw, raw_bits, res_arrs, f):
        ras = _raw_arrays(raw)
        if [a_.tobytes() for a_ in ras] != raw_bits:
            self.viol('raw-operand-modified', _form_class(f),
                      '{} with a raw array as second operand on {} wrote '
                      'into the caller\'s array'.format(f, self.describe()))
        if '=' not in f and any(np.shares_memory(r_, a_)
                                for r_ in res_arrs for a_ in ras):
            self.viol('raw-operand-aliased', _form_class(f),
                      '{} with a raw array as second operand on {}: the '
                      'result shares memory with the caller\'s array'.format(
                          f, self.describe()))

    def site(self, op, pattern):
        cfg = self.pool.cfg
        dk = np.dtype(cfg['leaf']['dtype']).kind
        return '{}/{}/{}/{}'.format(
            _form_class(op['f']), pattern, {'f': 'float', 'c': 'complex',
                                            'i': 'int', 'u': 'int'}[dk],
            self.regime())

    def regime(self):
        n = int(np.prod(self.pool.cfg['leaf']['shape']))
        return 'small' if n < self.th[0] else \
            'medium' if n < self.th[1] else 'blas'

    # ------------------------------------------------------------------
    def step(self, op):
        pool = self.pool
        f = op['f']
        if f == 'other-precision':
            return self.step_other_precision(op)
        objs = pool.objs
        xi, xj, xk = objs[op['i']], objs[op['j']], objs[op['k']]
        a = _scalar(op.get('a', 1))
        b = _scalar(op.get('b', 1))
        if op.get('stype'):
            a, b = _as_numpy_scalar(a, op['stype'], pool), \
                _as_numpy_scalar(b, op['stype'], pool)
            self.ctx.fired('numpy-scalar-' + op['stype'])
        n = op.get('n', 2)
        S = pool.S
        if 'part' in op and hasattr(xi, 'parts') and len(xi.parts) > 0:
            pi = op['part'] % len(xi.parts)
            xi, xj, xk = xi.parts[pi], xj.parts[pi], xk.parts[pi]
            S = xi.space
        elif 'sub' in op and hasattr(xi, 'parts') and len(xi.parts) > 1:
            npart = len(xi.parts)
            if op['sub'][0] == 'list':
                idx = []
                for q in op['sub'][1:]:
                    if q % npart not in idx:
                        idx.append(q % npart)
            else:
                idx = slice(op['sub'][1], max(op['sub'][1] + 1, op['sub'][2]))
            parents = (xi, xj, xk)
            try:
                xi, xj, xk = xi[idx], xj[idx], xk[idx]
            except Exception as e:
                self.viol('raise', 'subelement/' + type(e).__name__,
                          'X[{}] raised {}: {}'.format(idx, type(e).__name__,
                                                       str(e)[:120]))
            if not hasattr(xi, 'parts') or len(xi.parts) == 0:
                raise Reject('empty sub-element')
            for par, sub in zip(parents, (xi, xj, xk)):
                pk = set(_keys(par))
                if any(k_ not in pk for k_ in _keys(sub)):
                    self.viol('subelement-copies', op['sub'][0],
                              'X[{}] on {} does not share all its parts '
                              'with X (writing through it would be lost)'
                              ''.format(idx, self.describe()))
            S = xi.space
            self.ctx.fired('subelement-' + op['sub'][0])
        spec = _spec(f, a, b, n)
        if spec is None:
            raise HarnessError('no spec for ' + f)
        kind, opnds, outsel, ma, mb = spec
        # operands as objects
        sel = {'i': xi, 'j': xj, 'k': xk, 'one': None, 'zero': None}
        if 'x0' in f:
            x0 = pool.x0[op['i'] % len(pool.x0)]
            X = objs[op['k']]
            if 'own' in op and hasattr(X, 'parts') and len(X.parts) > 0:
                # the broadcast operand is one of X's own parts: for the
                # in-place forms it changes while the parts are walked over
                x0 = X.parts[op['own'] % len(X.parts)]
                self.ctx.fired('broadcast-own-part')
            sel.update({'X': X, 'x0': x0})
        A_obj = sel[opnds[0]] if opnds[0] in sel else None
        B_obj = sel[opnds[1]] if opnds[1] in sel else None
        out_obj = sel[outsel] if outsel else None
        if out_obj is not None and id(out_obj) in pool.readonly:
            # writing into one of two overlapping views is outside the
            # contract (identity, not memory overlap, is what it covers)
            raise Reject('overlapping views are read-only operands')
        if pool.readonly and A_obj is not None and B_obj is not None and \
                A_obj is not B_obj and id(A_obj) in pool.readonly and \
                id(B_obj) in pool.readonly:
            self.ctx.fired('overlapping-distinct-operands')
        pattern = _pattern(f, op)
        site = self.site(op, pattern)
        # ---- snapshot and model ------------------------------------------
        leaves = pool.leaves()
        snap = {k: np.array(v, copy=True) for k, v in leaves.items()}
        shape_src = out_obj if out_obj is not None else \
            (sel.get('X') if 'x0' in f else (A_obj if A_obj is not None else xi))
        nleaf = len(elem_arrays(shape_src))
        mdt = pool.mdt

        def vals(obj, name):
            if name in ('one', 'zero'):
                return [np.full(l.shape, 1 if name == 'one' else 0, dtype=mdt)
                        for l in elem_arrays(shape_src)]
            arrs = [snap[k].astype(mdt) for k in _keys(obj)]
            if len(arrs) != nleaf:      # broadcast base element over parts
                arrs = arrs * (nleaf // max(1, len(arrs)))
            return arrs

        Avals = vals(A_obj, opnds[0])
        Bvals = vals(B_obj, opnds[1])
        # preconditions of the explored domain
        if kind in ('div', 'rdiv') and any(np.any(np.abs(Bv) < 1e-3)
                                           for Bv in Bvals):
            raise Reject('denominator near zero')
        if kind == 'pow' and n < 0 and any(np.any(np.abs(Av) < 1e-2)
                                           for Av in Avals):
            raise Reject('negative power of ~0')
        exp, mags = [], []
        for Av, Bv in zip(Avals, Bvals):
            v, m = model_leaf(kind, Av, Bv, ma, mb, n, mdt)
            exp.append(v)
            mags.append(m)
        exp_full, fin = exp, None
        snapA, snapB = Avals, Bvals
        sameAB = [False] * nleaf
        if A_obj is not None and B_obj is not None and \
                opnds[0] in sel and opnds[1] in sel:
            ka, kb = _keys(A_obj), _keys(B_obj)
            # a base-space operand is broadcast over the parts
            if len(ka) and nleaf % len(ka) == 0:
                ka = list(ka) * (nleaf // len(ka))
            if len(kb) and nleaf % len(kb) == 0:
                kb = list(kb) * (nleaf // len(kb))
            if len(ka) == len(kb) == nleaf:
                sameAB = [x_ == y_ for x_, y_ in zip(ka, kb)]
        if self.nf:
            # entries all of whose operand entries are finite obey the usual
            # bounds; the others are compared as IEEE values further down
            fin = [np.isfinite(Av) & np.isfinite(Bv)
                   for Av, Bv in zip(Avals, Bvals)]
            if kind == 'pow' and not all(np.all(m_) for m_ in fin):
                raise Reject('power of a non-finite entry')
            Avals = [np.where(m_, Av, 0) for Av, m_ in zip(Avals, fin)]
            Bvals = [np.where(m_, Bv, 1) for Bv, m_ in zip(Bvals, fin)]
            exp = [np.where(m_, v, 0) for v, m_ in zip(exp, fin)]
            mags = [np.where(m_, v, 0) for v, m_ in zip(mags, fin)]
        # representable range of the space's dtype (float16 overflows at 65504,
        # int16 at 32767: intermediate terms have to fit as well)
        ldt = np.dtype(pool.cfg['leaf']['dtype'])
        lim = 1e12 if ldt.kind in 'iu' or np.finfo(ldt).max > 1e13 else \
            float(np.finfo(ldt).max) / 16
        if any(np.any(np.abs(v.astype(np.complex128)) > lim) for v in exp) or \
                (lim < 1e12 and any(np.any(np.asarray(m, dtype=float) > lim)
                                    for m in mags)):
            raise Reject('magnitude out of the explored range')
        if lim < 1e12:
            # odl's copy-free axpy computes (y / a + x) * a: the quotient has
            # to fit into the dtype as well (float16 only; with 32/64 bits
            # the explored magnitudes are far from the range limits)
            sc = [abs(complex(t)) for t in (ma, mb) if t is not None]
            inv = max([1.0] + [1.0 / t for t in sc if t != 0])
            top = max([0.0] + [float(np.max(np.abs(v))) for v in
                               list(Avals) + list(Bvals) if v.size])
            if top * inv * (sum(sc) + 1.0) > lim:
                raise Reject('magnitude out of the explored range')
        ilim = min(2 ** 30, int(np.iinfo(ldt).max) // 4) if pool.isint else 0
        if pool.isint and any(np.any(np.abs(v) > ilim) for v in exp):
            raise Reject('integer range')
        # ---- out buffer fault -------------------------------------------------
        out_keys = set(_keys(out_obj)) if out_obj is not None else set()
        read_keys = set()
        for o_, nm in ((A_obj, opnds[0]), (B_obj, opnds[1])):
            if o_ is not None and nm not in ('one', 'zero') and \
                    not _unread(kind, nm, opnds, ma, mb):
                read_keys |= set(_keys(o_))
        free_out = [k for k in out_keys if k not in read_keys]
        for t, k in enumerate(free_out):
            used = fill_garbage(leaves[k], op['fill'], t)
            self.ctx.fired('out-' + str(used))
        # ---- execute under garbage kind 1 -----------------------------------
        raw = None
        sel_call = sel
        if op.get('raw') and f in RAW_FORMS and xj is not None:
            raw = _raw_of(xj)
        if f.startswith('raw'):
            # reflected forms: the left operand has to be a list (an ndarray
            # on the left would hand the call to NumPy: C17's subject)
            if raw is None:
                raise Reject('no raw form of this operand')
            if isinstance(raw, np.ndarray):
                sel_call = dict(sel, j=raw.tolist())
                raw = None
                self.ctx.fired('raw-list-operand')
        if raw is not None:
            sel_call = dict(sel, j=raw)
            raw_bits = [a_.tobytes() for a_ in _raw_arrays(raw)]
            self.ctx.fired('raw-array-operand')
        fired = {}
        try:
            with seams.allocator(self.k1, salt=31, fired=fired):
                res = _apply(f, S, sel_call, a, b, n)
        except Exception as e:
            self.viol('raise', site + '/' + type(e).__name__,
                      '{} on {} raised {}: {}'.format(
                          f, self.describe(), type(e).__name__, str(e)[:200]))
        for k_, v_ in fired.items():
            self.ctx.fired('alloc-' + k_, v_)
        # ---- checks --------------------------------------------------------------
        if out_obj is not None and 'x0' not in f:
            if res is not out_obj:
                self.viol('return-identity', _form_class(f),
                          '{} did not return the out / self object'.format(f))
        if 'x0' in f and '=' in f and hasattr(res, 'parts'):
            if any(p1 is not p2 for p1, p2 in zip(res.parts, out_obj.parts)):
                self.viol('return-identity', _form_class(f),
                          '{}: parts of the result are not the parts of X'
                          ''.format(f))
        if not hasattr(res, 'space') or res.space != S:
            self.viol('result-space', _form_class(f),
                      '{} returned {!r:.60} not in the space'.format(f, res))
        res_arrs = elem_arrays(res)
        if len(res_arrs) != len(exp):
            raise HarnessError('leaf count mismatch')
        if raw is not None:
            self._check_raw(raw, raw_bits, res_arrs, f)
        if out_obj is None and 'x0' not in f:
            # an out-of-place form hands back a NEW element: if it shared
            # memory with an operand, the caller's next in-place operation on
            # the result would modify that operand (seed e01: `0 + x`
            # returning x itself; sum() and accumulation loops start so)
            for k_, v_ in leaves.items():
                if any(np.shares_memory(r_, v_) for r_ in res_arrs
                       if r_.size):
                    self.viol('result-aliases-operand', _form_class(f),
                              '{} on {} returned an element that shares '
                              'memory with a live element of the pool: an '
                              'in-place operation on the result would modify '
                              'it'.format(f, self.describe()))
        worst = 0.0
        for ra, ev, mg in zip(res_arrs, exp, mags):
            if ra.dtype != np.dtype(pool.cfg['leaf']['dtype']):
                self.viol('result-dtype', _form_class(f),
                          '{}: result dtype {} != space dtype'.format(
                              f, ra.dtype))
            if pool.isint:
                if not np.array_equal(ra.astype(np.int64), ev):
                    self.viol('value', site, self.msg(f, op, ra, ev, 0))
                continue
            with np.errstate(all='ignore'):
                diff = np.abs(ra.astype(mdt) - ev)
                # entry-wise bound + underflow floor of the element dtype
                tol = 16 * pool.eps * (mg + np.abs(ev)) + 8 * pool.tiny
                bad = ~(diff <= tol)
            if self.nf:
                q = [id(e_) for e_ in exp].index(id(ev))
                bad = self._nonfinite(bad, ra, exp_full[q], fin[q], kind, ma,
                                      mb, snapA[q], snapB[q], sameAB[q], mdt,
                                      f, op, site)
            if np.any(bad):
                idx = int(np.argmax(np.where(bad, diff / tol, 0)))
                self.viol('value', site, self.msg(
                    f, op, ra, ev, float(np.ravel(tol)[idx])) +
                    '; worst entry {}: got {!r}, model {!r}'.format(
                        idx, np.ravel(ra)[idx], complex(np.ravel(ev)[idx])
                        if mdt is np.clongdouble else float(np.ravel(ev)[idx])))
        # operands / bystanders bitwise unchanged
        leaves_after = pool.leaves()
        for k, before in snap.items():
            if k in out_keys:
                continue
            now = leaves_after.get(k)
            if now is None or now.tobytes() != before.tobytes() \
                    if now is None or now.flags.c_contiguous else \
                    np.ascontiguousarray(now).tobytes() != \
                    np.ascontiguousarray(before).tobytes():
                self.viol('operand-modified', site,
                          '{} on {} modified storage that is not its output'
                          ''.format(f, self.describe()))
        bits1 = b''.join(np.ascontiguousarray(r).tobytes() for r in res_arrs)
        nontrivial = sum(r.size for r in res_arrs) >= 2 and any(
            np.any(r != 0) for r in res_arrs)
        # ---- re-execute under garbage kind 2 ------------------------------------
        for k, before in snap.items():
            leaves[k][...] = before
        for t, k in enumerate(free_out):
            fill_garbage(leaves[k], 'huge' if op['fill'] != 'huge' else 'nan',
                         t + 1)
        with seams.allocator(self.k2, salt=32):
            res2 = _apply(f, S, sel_call, a, b, n)
        bits2 = b''.join(np.ascontiguousarray(r).tobytes()
                         for r in elem_arrays(res2))
        if raw is not None:
            self._check_raw(raw, raw_bits, elem_arrays(res2), f)
        if bits1 != bits2:
            self.viol('garbage-dependence', site,
                      '{} on {}: result depends on previous contents of the '
                      'output / of uninitialised memory (garbage {} vs {})'
                      ''.format(f, self.describe(), self.k1, self.k2))
        if 'x0' in f and '=' in f:
            pool.objs[op['k']] = res2
        self.ctx.event(f, op['i'], op['j'], op['k'],
                       elem_digest(res2)[:12])
        if nontrivial:
            self.ctx.covered(_form_class(f) + ('@part' if 'part' in op else
                                               '@sub' if 'sub' in op else ''),
                             pattern, self.regime(),
                             pool.cfg['leaf']['dtype'], pool.cfg['struct'],
                             _sclass(a), _sclass(b) if ',b,' in f else '-',
                             _layout_class(sel, opnds, outsel))

    def _nonfinite(self, bad, ra, ev, fin, kind, ma, mb, A, B, same, mdt, f,
                   op, site):
        """Entries with a non-finite operand entry: the result has to be the
        IEEE value of the entry-wise formula (same NaN pattern, same
        infinities).  Where a scalar is exactly zero the term may also have
        been dropped (scaled copy), which the other size regimes do.
        Returns the mask of entries that remain wrong at *finite* positions;
        wrong non-finite positions raise (or are parked, see below)."""
        pool = self.pool
        nfpos = ~fin
        if not np.any(nfpos):
            return bad
        with np.errstate(all='ignore'):
            r = ra.astype(mdt)

            def agrees(e):
                same_nan = np.isnan(r) & np.isnan(e)
                same_inf = np.isinf(r) & (r == e)
                both_fin = np.isfinite(r) & np.isfinite(e)
                d_ok = both_fin & (np.abs(r - e) <= 16 * pool.eps *
                                   (np.abs(e) + 1) + 8 * pool.tiny)
                return same_nan | same_inf | d_ok

            ok = agrees(ev)
            if kind == 'lin' and ma == 0:
                ok |= agrees(mdt(mb) * B)
            if kind == 'lin' and mb == 0:
                ok |= agrees(mdt(ma) * A)
            if kind == 'lin' and ma == 0 and mb == 0:
                ok |= (r == 0)
            if kind == 'lin' and same:
                # x1 is x2: (a + b) * x1 is the documented simplification
                ok |= agrees(mdt(ma + mb) * A)
                if ma + mb == 0:
                    ok |= (r == 0)
            if kind == 'lin1' and ma == 0:
                ok |= (r == 0)
        wrong = nfpos & ~ok
        self.ctx.fired('nonfinite-entries', int(np.sum(nfpos)))
        if np.any(wrong):
            idx = int(np.argmax(wrong))
            got, want = np.ravel(ra)[idx], float(np.ravel(ev)[idx])
            msg = ('{} with a={}, b={} on {}: entry {} is {!r} where the '
                   'entry-wise formula gives {!r} (operand entries {!r}, {!r})'
                   ''.format(f, op.get('a'), op.get('b'), self.describe(),
                             idx, got, want, float(np.ravel(A)[idx]),
                             float(np.ravel(B)[idx])))
            scaled_inf = (kind == 'lin1' and ma != 1 and ra.size < self.th[0] and
                          bool(np.all(np.isnan(r[wrong]) & np.isinf(ev[wrong]))))
            if scaled_inf:
                # one root cause (recorded finding): parked so that the rest
                # of the run is still explored, raised when the run ends
                if self.pending is None:
                    self.pending = Violation(
                        'C01', 'C01/nonfinite/scalar-multiple-of-inf-is-nan/'
                        'small', msg)
            else:
                self.viol('value-nonfinite', site, msg)
        return bad & fin

    def describe(self):
        c = self.pool.cfg
        return '{} {} shape {} (thresholds {})'.format(
            c['struct'], c['leaf']['dtype'], c['leaf']['shape'], self.th)

    def msg(self, f, op, ra, ev, tol):
        with np.errstate(all='ignore'):
            d = np.abs(ra.astype(np.complex128) - ev.astype(np.complex128))
            d = np.where(np.isfinite(d), d, np.inf)
        return ('{} with i={}, j={}, k={}, a={}, b={}, n={} on {}: result '
                'differs from the entry-wise model by {:.3g} (tol {:.3g}); '
                'out was pre-filled with {}'.format(
                    f, op['i'], op['j'], op['k'], op.get('a'), op.get('b'),
                    op.get('n'), self.describe(), float(np.max(d)), tol,
                    op['fill']))


def _unread(kind, name, opnds, ma, mb):
    """An operand multiplied by an exactly zero scalar in a *non-aliased*
    position is documented as not read only for set_zero-like calls; we treat
    every named operand as read (conservative: no garbage is written to it)."""
    return False


def _sclass(a):
    if isinstance(a, complex):
        return 'complex'
    if a in (0, 1, -1):
        return str(a)
    return 'generic'


def _layout_class(sel, opnds, outsel):
    flags = []
    for nm in list(opnds) + ([outsel] if outsel else []):
        o_ = sel.get(nm)
        if o_ is None:
            continue
        a = elem_arrays(o_)[0]
        flags.append('C' if a.flags.c_contiguous else
                     'F' if a.flags.f_contiguous else 'S')
    return ''.join(sorted(set(flags)))


def _form_class(f):
    return f


def _pattern(f, op):
    """Identity pattern of (x1, x2, out) for the call form."""
    uses = [c for c in ('i', 'j', 'k') if ('x' + c) in f]
    ids = {c: op[c] for c in uses}
    groups = {}
    for c, v in ids.items():
        groups.setdefault(v, []).append(c)
    return '|'.join(sorted(''.join(sorted(g)) for g in groups.values())) or '-'


def _spec(f, a, b, n):
    """(model kind, (operand A, operand B), out selector, model a, model b)"""
    T = {
        'S.lincomb(a,xi,b,xj,out=xk)': ('lin', ('i', 'j'), 'k', a, b),
        'S.lincomb(a,xi,b,xj)': ('lin', ('i', 'j'), None, a, b),
        'S.lincomb(a,xi,out=xk)': ('lin1', ('i', 'i'), 'k', a, 0),
        'S.lincomb(a,xi)': ('lin1', ('i', 'i'), None, a, 0),
        'xk.lincomb(a,xi,b,xj)': ('lin', ('i', 'j'), 'k', a, b),
        'xk.lincomb(a,xi)': ('lin1', ('i', 'i'), 'k', a, 0),
        'xi+xj': ('lin', ('i', 'j'), None, 1, 1),
        'xi-xj': ('lin', ('i', 'j'), None, 1, -1),
        'rawj-xi': ('lin', ('j', 'i'), None, 1, -1),
        'rawj+xi': ('lin', ('j', 'i'), None, 1, 1),
        'xi*xj': ('mul', ('i', 'j'), None, 1, 1),
        'xi/xj': ('div', ('i', 'j'), None, 1, 1),
        'xk+=xj': ('lin', ('k', 'j'), 'k', 1, 1),
        'xk-=xj': ('lin', ('k', 'j'), 'k', 1, -1),
        'xk*=xj': ('mul', ('k', 'j'), 'k', 1, 1),
        'xk/=xj': ('div', ('k', 'j'), 'k', 1, 1),
        'xi+a': ('lin', ('i', 'one'), None, 1, a),
        'a+xi': ('lin', ('i', 'one'), None, 1, a),
        'xi-a': ('lin', ('i', 'one'), None, 1, -a),
        'a-xi': ('lin', ('i', 'one'), None, -1, a),
        'xi*a': ('lin1', ('i', 'i'), None, a, 0),
        'a*xi': ('lin1', ('i', 'i'), None, a, 0),
        'xi/a': ('lin1', ('i', 'i'), None, (1.0 / a) if a else None, 0),
        'a/xi': ('div', ('one', 'i'), None, 1, 1),
        'xk+=a': ('lin', ('k', 'one'), 'k', 1, a),
        'xk-=a': ('lin', ('k', 'one'), 'k', 1, -a),
        'xk*=a': ('lin1', ('k', 'k'), 'k', a, 0),
        'xk/=a': ('lin1', ('k', 'k'), 'k', (1.0 / a) if a else None, 0),
        'xi**n': ('pow', ('i', 'i'), None, 1, 1),
        'xk**=n': ('pow', ('k', 'k'), 'k', 1, 1),
        '-xi': ('lin1', ('i', 'i'), None, -1, 0),
        '+xi': ('lin1', ('i', 'i'), None, 1, 0),
        'S.multiply(xi,xj,out=xk)': ('mul', ('i', 'j'), 'k', 1, 1),
        'S.divide(xi,xj,out=xk)': ('div', ('i', 'j'), 'k', 1, 1),
        'S.multiply(xi,xj)': ('mul', ('i', 'j'), None, 1, 1),
        'S.divide(xi,xj)': ('div', ('i', 'j'), None, 1, 1),
        'xi.multiply(xj,out=xk)': ('mul', ('i', 'j'), 'k', 1, 1),
        'xi.divide(xj,out=xk)': ('div', ('i', 'j'), 'k', 1, 1),
        'xk.assign(xi)': ('lin1', ('i', 'i'), 'k', 1, 0),
        'xi.copy()': ('lin1', ('i', 'i'), None, 1, 0),
        'xk.set_zero()': ('lin1', ('zero', 'zero'), 'k', 1, 0),
        'S.zero()': ('lin1', ('zero', 'zero'), None, 1, 0),
        'S.one()': ('lin1', ('one', 'one'), None, 1, 0),
        'X+x0': ('lin', ('X', 'x0'), None, 1, 1),
        'x0+X': ('lin', ('X', 'x0'), None, 1, 1),
        'X-x0': ('lin', ('X', 'x0'), None, 1, -1),
        'x0-X': ('lin', ('X', 'x0'), None, -1, 1),
        'X*x0': ('mul', ('X', 'x0'), None, 1, 1),
        'X/x0': ('div', ('X', 'x0'), None, 1, 1),
        'X+=x0': ('lin', ('X', 'x0'), 'X', 1, 1),
        'X-=x0': ('lin', ('X', 'x0'), 'X', 1, -1),
        'X*=x0': ('mul', ('X', 'x0'), 'X', 1, 1),
        'X/=x0': ('div', ('X', 'x0'), 'X', 1, 1),
    }
    s = T.get(f)
    if s is not None and s[3] is None:
        raise Reject('division by the scalar zero')
    if f == 'a/xi':
        return ('rdiv', ('one', 'i'), None, a, 1)
    return s


def _raw_of(x):
    """A raw (non-element) stand-in for x: an array of the space's dtype
    and shape, or a list of such arrays for a product space of leaves."""
    if hasattr(x, 'parts'):
        if any(hasattr(p_, 'parts') for p_ in x.parts) or len(x.parts) == 0:
            return None
        return [np.array(p_.asarray(), copy=True) for p_ in x.parts]
    return np.array(x.asarray(), copy=True)


def _raw_arrays(raw):
    return raw if isinstance(raw, list) else [raw]


def _apply(f, S, sel, a, b, n):
    xi, xj, xk = sel['i'], sel['j'], sel['k']
    X, x0 = sel.get('X'), sel.get('x0')
    if f == 'S.lincomb(a,xi,b,xj,out=xk)':
        return S.lincomb(a, xi, b, xj, out=xk)
    if f == 'S.lincomb(a,xi,b,xj)':
        return S.lincomb(a, xi, b, xj)
    if f == 'S.lincomb(a,xi,out=xk)':
        return S.lincomb(a, xi, out=xk)
    if f == 'S.lincomb(a,xi)':
        return S.lincomb(a, xi)
    if f == 'xk.lincomb(a,xi,b,xj)':
        return xk.lincomb(a, xi, b, xj)
    if f == 'xk.lincomb(a,xi)':
        return xk.lincomb(a, xi)
    if f == 'xi+xj':
        return xi + xj
    if f == 'xi-xj':
        return xi - xj
    if f == 'rawj-xi':
        return xj - xi      # xj is a list here: list - element -> __rsub__
    if f == 'rawj+xi':
        return xj + xi      # list + element -> __radd__
    if f == 'xi*xj':
        return xi * xj
    if f == 'xi/xj':
        return xi / xj
    if f == 'xk+=xj':
        return operator.iadd(xk, xj)
    if f == 'xk-=xj':
        return operator.isub(xk, xj)
    if f == 'xk*=xj':
        return operator.imul(xk, xj)
    if f == 'xk/=xj':
        return operator.itruediv(xk, xj)
    if f == 'xi+a':
        return xi + a
    if f == 'a+xi':
        return a + xi
    if f == 'xi-a':
        return xi - a
    if f == 'a-xi':
        return a - xi
    if f == 'xi*a':
        return xi * a
    if f == 'a*xi':
        return a * xi
    if f == 'xi/a':
        return xi / a
    if f == 'a/xi':
        return a / xi
    if f == 'xk+=a':
        return operator.iadd(xk, a)
    if f == 'xk-=a':
        return operator.isub(xk, a)
    if f == 'xk*=a':
        return operator.imul(xk, a)
    if f == 'xk/=a':
        return operator.itruediv(xk, a)
    if f == 'xi**n':
        return xi ** n
    if f == 'xk**=n':
        return operator.ipow(xk, n)
    if f == '-xi':
        return -xi
    if f == '+xi':
        return +xi
    if f == 'S.multiply(xi,xj,out=xk)':
        return S.multiply(xi, xj, out=xk)
    if f == 'S.divide(xi,xj,out=xk)':
        return S.divide(xi, xj, out=xk)
    if f == 'S.multiply(xi,xj)':
        return S.multiply(xi, xj)
    if f == 'S.divide(xi,xj)':
        return S.divide(xi, xj)
    if f == 'xi.multiply(xj,out=xk)':
        return xi.multiply(xj, out=xk)
    if f == 'xi.divide(xj,out=xk)':
        return xi.divide(xj, out=xk)
    if f == 'xk.assign(xi)':
        return xk.assign(xi)
    if f == 'xi.copy()':
        return xi.copy()
    if f == 'xk.set_zero()':
        return xk.set_zero()
    if f == 'S.zero()':
        return S.zero()
    if f == 'S.one()':
        return S.one()
    if f == 'X+x0':
        return X + x0
    if f == 'x0+X':
        return x0 + X
    if f == 'X-x0':
        return X - x0
    if f == 'x0-X':
        return x0 - X
    if f == 'X*x0':
        return X * x0
    if f == 'X/x0':
        return X / x0
    if f == 'X+=x0':
        return operator.iadd(X, x0)
    if f == 'X-=x0':
        return operator.isub(X, x0)
    if f == 'X*=x0':
        return operator.imul(X, x0)
    if f == 'X/=x0':
        return operator.itruediv(X, x0)
    raise HarnessError('form ' + f)
