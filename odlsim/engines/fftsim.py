"""fftsim -- simulation engine for C18 (Fourier transforms; DFT/FT clauses).

System: one transform family per run -- a long-lived transform T together
with T.inverse, T.adjoint and T.inverse.inverse, which share FFTW plans'
planner state (process-global wisdom) and, for the continuous transform,
temporaries *by reference*.  History: create/clear temporaries, init/clear
FFTW plan, forget wisdom, scribble the temporaries, calls in place and out of
place on any of the live objects with planning effort estimate/measure.
Oracle, for every call in the history: the stateless model (numpy.fft on a
copy for the DFT; a freshly built replica, also with the *other* back-end, for
both), inverse recovers the input, input bit-for-bit untouched.
"""
import copy

import numpy as np

from ..core import (Violation, Reject, HarnessError, np_rng, elem_snapshot,
                    snapshot_equal_bits, fill_elem, fill_garbage, elem_digest)
from .. import seams
from .. import spaces as SP

GARBAGE = ('nan', 'huge', 'stale', 'inf', 'zero')
LENGTHS = [1, 2, 3, 4, 5, 8, 9]

TIERS = {
    'C18': {'quick': {'runs': 24000, 'budget_s': 100, 'chunk': 50},
            'thorough': {'runs': 600000, 'budget_s': 1800, 'chunk': 200}},
}

RULE = {
    'C18': ('Each run draws a transform family (DiscreteFourierTransform or '
            'FourierTransform; 1-3 axes with lengths from {1,2,3,4,5,8,9}; '
            'axes subset; half-complex; per-axis shift; sign; float32/64 or '
            'complex64/128; impl numpy/pyfftw), keeps T, T.inverse, '
            'T.adjoint and T.inverse.inverse alive and executes a history of '
            '5-14 operations from {call oop/ip on any object with effort '
            'estimate/measure, create/clear temporaries, init/clear FFTW '
            'plan, forget wisdom, scribble temporaries}. Distinct by (class, '
            'impl, half-complex, parity vector, shift vector, axes subset, '
            'dtype, history shape [temporaries / plan live at the call], '
            'call path); non-trivial when the input has >= 2 entries.'),
}

COMPONENTS = {
    'real': ['odl.trafos.fourier (DiscreteFourierTransform*, '
             'FourierTransform*), ft_utils pre/post-processing, '
             'pyfftw_bindings.pyfftw_call', 'pyFFTW / FFTW planner with its '
             'process-global wisdom', 'numpy.fft back-end'],
    'stub': ['allocator fill wrapper (planning buffers, temporaries)',
             'garbage in out and scribbled temporaries',
             'numpy.fft formulas as the stateless DFT model',
             'fresh replicas (real code) as the stateless FT model'],
}

ASSUMPTIONS = {
    'C18': ['tolerance 1e4*eps*(|y|+1); FFTW plans may differ between calls, '
            'so pyfftw results are never compared bitwise',
            'wavelet clauses and convergence to the analytic Gaussian '
            'transform are not decided (pure functions of the input)',
            'configurations the constructor rejects are counted, not judged',
            'a clean batch is evidence, not proof'],
}


# --------------------------------------------------------------------------

def generate(prop, rng, tier):
    cls = rng.choice(['DFT', 'DFT', 'FT'])
    nd = rng.choice([1, 1, 2, 2, 3])
    shape = [rng.choice(LENGTHS) for _ in range(nd)]
    if rng.random() < 0.15:
        # FFTW switches algorithms (and which plans may destroy their input)
        # with the size: a few larger lengths in one axis
        shape[rng.randrange(nd)] = rng.choice([16, 27, 64, 100, 128, 250])
    if cls == 'FT':
        shape = [max(2, s) for s in shape]
    dtype = rng.choice(['float64', 'complex128', 'float32', 'complex64',
                        'float64'])
    cfg = {'cls': cls, 'shape': shape, 'dtype': dtype,
           'impl': rng.choice(['numpy', 'pyfftw', 'pyfftw']),
           'axes': sorted(rng.sample(range(nd), rng.randint(1, nd))),
           'axes_order': rng.random(),
           'sign': rng.choice(['-', '-', '-', '+'])}
    if cfg.pop('axes_order') < 0.25 and len(cfg['axes']) > 1:
        # axes given in another than ascending order (the last one listed is
        # the half-complex axis), sometimes as negative indices
        rng.shuffle(cfg['axes'])
        if rng.random() < 0.4:
            cfg['axes'] = [a - nd for a in cfg['axes']]
    if np.dtype(dtype).kind == 'f':
        cfg['halfcomplex'] = rng.random() < 0.6
    else:
        cfg['halfcomplex'] = False
        # the option is documented to have no effect on complex domains
        cfg['hc_arg'] = rng.random() < 0.25
    if cls == 'FT':
        cfg['shift'] = [rng.random() < 0.5 for _ in cfg['axes']]
        if cfg['halfcomplex']:
            cfg['shift'][-1] = True
        cfg['tmp_at_init'] = rng.random() < 0.2
        if rng.random() < 0.5:
            # not a cube, not centred: per-axis extents
            # (sometimes far from the origin: large phases x[0] * xi)
            cfg['lo'] = [rng.choice([-1.0, -2.5, 0.0, -0.5, 100.0, 1000.0])
                         for _ in shape]
            cfg['hi'] = [l + rng.choice([2.0, 3.0, 0.75, 5.0])
                         for l in cfg['lo']]
    ops = []
    for _ in range(rng.randint(5, 14)):
        t = rng.choices(['call', 'create_tmp', 'clear_tmp', 'init_plan',
                         'clear_plan', 'forget', 'scribble'],
                        [10, 2, 1, 2, 1, 2, 2])[0]
        op = {'t': t, 'obj': rng.choice(['T', 'T', 'Ti', 'Ta', 'Tii']),
              'i': rng.randint(0, 2)}
        if t == 'call':
            op['path'] = rng.choice(['oop', 'ip'])
            op['fill'] = rng.choice(GARBAGE)
            op['effort'] = rng.choice([None, None, 'estimate', 'measure'])
            op['olay'] = rng.choice(LAYOUTS + ['interleaved'])
        if t == 'create_tmp':
            op['r'], op['f'] = rng.random() < 0.7, rng.random() < 0.7
        if t == 'init_plan':
            op['effort'] = rng.choice(['estimate', 'measure'])
        if t == 'scribble':
            op['fill'] = rng.choice(GARBAGE)
        ops.append(op)
    if rng.random() < 0.2:
        # the same process first transforms with the twin configuration of
        # the OTHER precision (seed a18: whatever the library keeps at module
        # level -- phase factors, plans, wisdom -- must be keyed by precision)
        ops.insert(0, {'t': 'twin_call', 'obj': 'T', 'i': 0,
                       'path': rng.choice(['oop', 'ip'])})
    # memory layouts of the pool elements (a cached FFTW plan is tied to the
    # strides it was made for) and of the out arguments
    return {'cfg': cfg, 'ops': ops, 'garbage': rng.choice(GARBAGE[:4]),
            'global_seed': rng.getrandbits(31), 'xseed': rng.getrandbits(32),
            'xlay': [rng.choice(LAYOUTS) for _ in range(3)],
            'ylay': [rng.choice(LAYOUTS) for _ in range(3)]}


LAYOUTS = ['C'] * 5 + ['F', 'strided', 'strided']
import os as _os
# 1e4 until wave 9: measured floor ~1e1 (first alarms on the unchanged tree),
# 3e1 clean; 3e2 leaves a factor 10 (seed y18, a single-precision phase error)
TOLFAC = float(_os.environ.get('ODLSIM_FFT_TOLFAC', '3e2'))


def simplify(prop, plan):
    for key in ('xlay', 'ylay'):
        if any(l != 'C' for l in plan.get(key, [])):
            c = copy.deepcopy(plan)
            c[key] = ['C'] * 3
            yield c
    for i, op in enumerate(plan['ops']):
        if op.get('olay', 'C') != 'C':
            c = copy.deepcopy(plan)
            c['ops'][i]['olay'] = 'C'
            yield c
        if op.get('effort') not in (None,):
            c = copy.deepcopy(plan)
            c['ops'][i]['effort'] = None
            yield c
        if op.get('fill') not in (None, 'zero'):
            c = copy.deepcopy(plan)
            c['ops'][i]['fill'] = 'zero'
            yield c
        if op.get('path') == 'ip':
            c = copy.deepcopy(plan)
            c['ops'][i]['path'] = 'oop'
            yield c


def build(cfg, impl=None):
    o = SP.odl()
    nd = len(cfg['shape'])
    kw = {'impl': impl or cfg['impl'], 'axes': cfg['axes'],
          'sign': cfg['sign']}
    if np.dtype(cfg['dtype']).kind == 'f':
        kw['halfcomplex'] = cfg['halfcomplex']
    elif cfg.get('hc_arg'):
        kw['halfcomplex'] = True
    try:
        if cfg['cls'] == 'DFT':
            S = o.uniform_discr([0.0] * nd, [float(n) for n in cfg['shape']],
                                cfg['shape'], dtype=cfg['dtype'])
            return o.trafos.DiscreteFourierTransform(S, **kw)
        S = o.uniform_discr(cfg.get('lo', [-1.0] * nd),
                            cfg.get('hi', [1.0] * nd), cfg['shape'],
                            dtype=cfg['dtype'])
        kw['shift'] = cfg['shift']
        return o.trafos.FourierTransform(S, **kw)
    except (ValueError, TypeError, NotImplementedError) as e:
        raise Reject('rejected_config: ' + str(e)[:80])


def np_forward(cfg, x):
    """numpy.fft model of the *forward* DFT of the config."""
    axes = tuple(cfg['axes'])
    if cfg.get('halfcomplex'):
        return np.fft.rfftn(x, axes=axes)
    if cfg['sign'] == '-':
        return np.fft.fftn(x, axes=axes)
    n = np.prod([x.shape[a] for a in axes])
    return n * np.fft.ifftn(x, axes=axes)


def np_inverse(cfg, y, rshape):
    axes = tuple(cfg['axes'])
    if cfg.get('halfcomplex'):
        return np.fft.irfftn(y, s=[rshape[a] for a in axes], axes=axes)
    if cfg['sign'] == '-':
        return np.fft.ifftn(y, axes=axes)
    n = np.prod([rshape[a] for a in axes])
    return np.fft.fftn(y, axes=axes) / n


def ft_model(T, xa, sign):
    """Stateless model of the continuous FourierTransform: the exact Fourier
    transform (2 pi)^(-d/2) int f(x) exp(-+ i x xi) dx of the piecewise
    constant interpolant of the samples, evaluated at the points of the
    reciprocal grid by a direct O(N^2) sum per axis.  Independent of odl's
    FFT + pre/post-processing route (phase factors, shifts, parity,
    half-complex grids), which must reproduce it up to rounding."""
    S, Rg = T.domain, T.range
    out = np.asarray(xa).astype(np.complex128)
    sg = -1j if sign == '-' else 1j
    for a in T.axes:
        xs = np.asarray(S.grid.coord_vectors[a], dtype=float)
        xi = np.asarray(Rg.grid.coord_vectors[a], dtype=float)
        h = float(S.cell_sides[a])
        E = np.exp(sg * np.outer(xi, xs))
        t = xi * h / 2
        sinc = np.where(t == 0, 1.0, np.sin(t) / np.where(t == 0, 1.0, t))
        K = (h * sinc / np.sqrt(2 * np.pi))[:, None] * E
        out = np.moveaxis(np.tensordot(K, out, axes=([1], [a])), 0, a)
    return out


def site(cfg):
    dk = 'real' if np.dtype(cfg['dtype']).kind == 'f' else 'complex'
    s = '{}/{}/{}'.format(cfg['cls'], dk,
                          'hc' if cfg.get('halfcomplex') else 'full')
    if cfg['cls'] == 'FT' and cfg.get('halfcomplex') and \
            not all(cfg.get('shift', [True])):
        s += '-unshifted-axis'
    return s


def execute(prop, plan, ctx):
    seams.begin_run(plan.get('global_seed', 0))
    import pyfftw
    pyfftw.forget_wisdom()
    cfg = plan['cfg']
    gk = plan['garbage']
    real_full = np.dtype(cfg['dtype']).kind == 'f' and not cfg['halfcomplex']
    fired = {}
    with seams.allocator(gk, salt=51, fired=fired):
        T = build(cfg)
        if cfg.get('tmp_at_init'):
            T.create_temporaries()
        objs = {'T': T}
        try:
            objs['Ti'] = T.inverse
            objs['Ta'] = T.adjoint
            objs['Tii'] = objs['Ti'].inverse
        except Exception as e:
            raise Violation('C18', 'C18/raise-derive/{}/{}'.format(
                site(cfg), type(e).__name__),
                'building inverse/adjoint of {} raised {}: {}'.format(
                    site(cfg), type(e).__name__, str(e)[:160]))
    if cfg['cls'] == 'FT':
        # the frequencies the result is attached to: stride 2 pi / (n h) in
        # every transformed axis (also the halved one), the domain's own
        # stride elsewhere -- independent of odl's reciprocal_grid
        nd_ = len(cfg['shape'])
        tr = set(a % nd_ for a in cfg['axes'])
        for a in range(nd_):
            h = float(T.domain.cell_sides[a])
            want = 2 * np.pi / (cfg['shape'][a] * h) if a in tr else h
            got = float(T.range.cell_sides[a])
            if abs(got - want) > 1e-9 * abs(want):
                raise Violation(
                    'C18', 'C18/reciprocal-grid-stride/' + site(cfg),
                    'range grid of the continuous transform has stride {:.6g} '
                    'in axis {} where 2 pi / (n h) = {:.6g} [cfg {}]'.format(
                        got, a, want, cfg))
    g = np_rng('fft', plan['xseed'])
    with seams.allocator('zero'):
        xs = [SP.rand_elem(T.domain, g) for _ in range(3)]
        ys = [SP.rand_elem(T.range, g) for _ in range(3)]
        if cfg.get('halfcomplex'):
            # range elements that are transforms of real data (so that the
            # half-complex inverse has a well-defined answer)
            try:
                ys = [T.range.element(np_forward(cfg, x.asarray()).astype(
                    T.range.dtype)) if cfg['cls'] == 'DFT' else
                    _fresh(cfg)(x) for x in xs]
            except Exception as e:
                raise Violation('C18', 'C18/raise/{}/call/{}'.format(
                    site(cfg), type(e).__name__),
                    'a fresh {} transform raised {} on its first call: {} '
                    '[cfg {}]'.format(site(cfg), type(e).__name__,
                                      str(e)[:160], cfg))
        for pool_, key in ((xs, 'xlay'), (ys, 'ylay')):
            for i_, lay in enumerate(plan.get(key, [])[:3]):
                if lay != 'C':
                    pool_[i_] = SP.relayout(pool_[i_], lay)
                    ctx.fired('layout-pool-' + lay)
    pool_snap = [(e, elem_snapshot(e)) for e in xs + ys]
    eps = SP.eps_for(xs[0], ys[0])
    S = site(cfg)
    for op in plan['ops']:
        t = op['t']
        obj = objs[op['obj']]
        inv_like = op['obj'] in ('Ti', 'Ta')
        try:
            if t == 'forget':
                pyfftw.forget_wisdom()
                ctx.fired('wisdom-forgotten')
            elif t == 'twin_call':
                twin = {'float64': 'float32', 'float32': 'float64',
                        'complex128': 'complex64',
                        'complex64': 'complex128'}[cfg['dtype']]
                c2 = dict(cfg, dtype=twin)
                with seams.allocator(gk, salt=57, fired=fired):
                    try:
                        T2 = build(c2)
                    except Reject:
                        continue
                    g2 = np_rng('twin', plan['xseed'])
                    x2 = SP.rand_elem(T2.domain, g2)
                    if op.get('path') == 'ip':
                        y2 = T2(x2, out=T2.range.element())
                    else:
                        y2 = T2(x2)
                    T2.inverse(y2)
                ctx.fired('twin-precision-transform-first')
            elif t == 'create_tmp':
                if hasattr(obj, 'create_temporaries'):
                    with seams.allocator(gk, salt=52, fired=fired):
                        obj.create_temporaries(r=op['r'], f=op['f'])
                    ctx.fired('temporaries-created')
            elif t == 'clear_tmp':
                if hasattr(obj, 'clear_temporaries'):
                    obj.clear_temporaries()
            elif t == 'init_plan':
                if obj.impl == 'pyfftw':
                    with seams.allocator(gk, salt=53, fired=fired):
                        obj.init_fftw_plan(planning_effort=op['effort'])
                    ctx.fired('plan-' + op['effort'])
            elif t == 'clear_plan':
                if obj.impl == 'pyfftw':
                    obj.clear_fftw_plan()
            elif t == 'scribble':
                n = 0
                for name in ('_tmp_r', '_tmp_f'):
                    a = getattr(obj, name, None)
                    if isinstance(a, np.ndarray):
                        fill_garbage(a, op['fill'], 7)
                        n += 1
                if n:
                    ctx.fired('scribble-' + op['fill'], n)
            elif t == 'call':
                try:
                    _call(plan, cfg, objs, op, xs, ys, eps, ctx, fired, S,
                          real_full)
                except Violation:
                    raise
        except (Violation, Reject, HarnessError):
            raise
        except Exception as e:
            raise Violation('C18', 'C18/raise/{}/{}/{}'.format(
                S, t, type(e).__name__),
                '{} on {} ({}) raised {}: {} [cfg {}]'.format(
                    t, op['obj'], S, type(e).__name__, str(e)[:200], cfg))
        # no call, planning or temporary management may touch an element the
        # caller still holds (a plan keeps the arrays it was created with)
        for q, (e, sn) in enumerate(pool_snap):
            if not snapshot_equal_bits(sn, e):
                raise Violation('C18', 'C18/pool-modified/{}/{}'.format(S, t),
                                '{} on {} modified the element {}[{}] the '
                                'caller holds from an earlier call [cfg {}]'
                                ''.format(t, op['obj'], 'xs' if q < 3 else
                                          'ys', q % 3, cfg))
        ctx.step()
    for k, v in fired.items():
        ctx.fired('alloc-' + k, v)


def _fresh(cfg, impl=None):
    with seams.allocator('zero'):
        return build(cfg, impl)


def _call(plan, cfg, objs, op, xs, ys, eps, ctx, fired, S, real_full):
    gk = plan['garbage']
    name = op['obj']
    obj = objs[name]
    fwd = name in ('T', 'Tii')
    x = (xs if fwd else ys)[op['i']]
    snap = elem_snapshot(x)
    kw = {}
    if op.get('effort') and obj.impl == 'pyfftw':
        if cfg['cls'] == 'DFT':
            kw['flags'] = ('FFTW_' + op['effort'].upper(),)
        else:
            kw['planning_effort'] = op['effort']
    if real_full and not fwd:
        # complex -> real transform that is not half-complex: the library
        # builds it but cannot evaluate it (recorded finding)
        pass
    with seams.allocator(gk, salt=54, fired=fired):
        if op['path'] == 'oop':
            y = obj(x, **kw)
        else:
            with seams.allocator('zero'):
                y = obj.range.element()
                olay = op.get('olay', 'C')
                if olay == 'interleaved':
                    # x and out as two columns of one table (seed d18):
                    # disjoint memory inside the same bounds
                    olay = 'C'
                    xa0 = x.asarray()
                    if obj.range.shape == obj.domain.shape and \
                            obj.range.dtype == obj.domain.dtype:
                        tab = np.zeros(xa0.shape + (2,), dtype=xa0.dtype)
                        tab[..., 0] = xa0
                        x2 = obj.domain.element(tab[..., 0])
                        y2 = obj.range.element(tab[..., 1])
                        if np.shares_memory(x2.asarray(), tab) and \
                                np.shares_memory(y2.asarray(), tab):
                            x, y = x2, y2
                            snap = elem_snapshot(x)
                            ctx.fired('layout-interleaved-x-out')
                if olay != 'C':
                    y = SP.relayout(y, olay)
                    ctx.fired('layout-out-' + olay)
            used = fill_elem(y, op['fill'], 3)
            ctx.fired('out-' + str(used))
            ret = obj(x, out=y, **kw)
            if ret is not y:
                raise Violation('C18', 'C18/ip-return/' + S,
                                'T(x, out=y) did not return y')
    hist = '{}{}{}'.format(
        'r' if getattr(obj, '_tmp_r', None) is not None else '-',
        'f' if getattr(obj, '_tmp_f', None) is not None else '-',
        'p' if getattr(obj, '_fftw_plan', None) is not None else '-')
    what = '{} {} ({}, effort {}, history {})'.format(
        name, op['path'], obj.impl, op.get('effort'), hist)
    if not snapshot_equal_bits(snap, x):
        raise Violation('C18', 'C18/x-modified/{}/{}'.format(
            S, 'fwd' if fwd else 'inv'),
            '{}: the input element was modified [cfg {}]'.format(what, cfg))
    ya = y.asarray()
    xa = x.asarray()
    tol = TOLFAC * eps * (SP.magnitude(ya) + SP.magnitude(xa) + 1.0) * \
        max(1, xa.size) ** 0.5
    # (1) numpy.fft model (DFT only; the adjoint is judged by replica only)
    if cfg['cls'] == 'DFT' and name != 'Ta':
        ref = np_forward(cfg, xa) if fwd else \
            np_inverse(cfg, xa, objs['T'].domain.shape)
        ok, d = SP.close(ya, ref.astype(ya.dtype), tol)
        if not ok:
            raise Violation('C18', 'C18/dft-vs-numpy/{}/{}'.format(
                S, 'fwd' if fwd else 'inv'),
                '{}: differs from the numpy.fft formula by {:.3g} (tol '
                '{:.3g}) [cfg {}]'.format(what, d, tol, cfg))
    # (1b) continuous FT: direct-sum model of the forward transform; for
    # the inverse objects, the forward model applied to the result must give
    # back the argument (whenever the argument is a transform of something)
    if cfg['cls'] == 'FT' and name != 'Ta':
        T0 = objs['T']
        ftol = 10 * TOLFAC * eps * (SP.magnitude(ya) + SP.magnitude(xa) + 1.0) * \
            max(1, xa.size)
        if fwd:
            ref = ft_model(T0, xa, cfg['sign'])
            ok, d = SP.close(ya, ref.astype(ya.dtype), ftol)
            if not ok:
                raise Violation('C18', 'C18/ft-vs-direct-sum/{}/fwd'.format(S),
                                '{}: differs from the direct-sum model of the '
                                'continuous transform by {:.3g} (tol {:.3g}) '
                                '[cfg {}]'.format(what, d, ftol, cfg))
        elif not real_full:
            ref = ft_model(T0, ya, cfg['sign'])
            ok, d = SP.close(xa, ref.astype(xa.dtype), ftol)
            if not ok:
                raise Violation('C18', 'C18/ft-vs-direct-sum/{}/inv'.format(S),
                                '{}: the direct-sum forward model applied to '
                                'the result differs from the argument by '
                                '{:.3g} (tol {:.3g}) [cfg {}]'.format(
                                    what, d, ftol, cfg))
    # (2)/(4) stateless replicas, same and other back-end
    for impl in ('numpy', 'pyfftw'):
        Tf = _fresh(cfg, impl)
        rep = {'T': Tf, 'Ti': None, 'Ta': None, 'Tii': None}
        with seams.allocator('zero'):
            if name == 'T':
                r_obj = Tf
            elif name == 'Ti':
                r_obj = Tf.inverse
            elif name == 'Ta':
                r_obj = Tf.adjoint
            else:
                r_obj = Tf.inverse.inverse
            yr = r_obj(x.copy())
        ok, d = SP.close(ya, yr.asarray(), tol)
        if not ok:
            kind = 'history-dependence' if impl == obj.impl else 'backends-differ'
            raise Violation('C18', 'C18/{}/{}/{}'.format(
                kind, S, 'fwd' if fwd else 'inv'),
                '{}: differs from a fresh {} replica by {:.3g} (tol {:.3g}) '
                '[cfg {}]'.format(what, impl, d, tol, cfg))
    # (3) the inverse recovers the input
    if name in ('T', 'Tii'):
        with seams.allocator(gk, salt=55):
            back = objs['Ti'](y)
        ok, d = SP.close(back.asarray(), xa, tol)
        if not ok:
            raise Violation('C18', 'C18/roundtrip/' + S,
                            '{}: T.inverse(T(x)) differs from x by {:.3g} '
                            '(tol {:.3g}) [cfg {}]'.format(what, d, tol, cfg))
    ctx.event('call', name, op['path'], elem_digest(y)[:8]
              if obj.impl == 'numpy' else '')
    if xa.size >= 2:
        ctx.covered(cfg['cls'], obj.impl, cfg.get('halfcomplex'),
                    ''.join(str(n % 2) for n in cfg['shape']),
                    ''.join('1' if s else '0' for s in cfg.get('shift', [])),
                    ','.join(map(str, cfg['axes'])), cfg['dtype'],
                    cfg['sign'], hist, name, op['path'])
