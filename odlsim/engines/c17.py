"""C17 workload of poolsim: NumPy ufuncs on elements and shared memory.

System: a few storages (ndarrays), each reachable through several handles
(the raw array, a wrapping element, the element's tensor for discretized
spaces, an asarray() view).  History: ufunc calls / methods with operands and
out taken from any handle (possibly aliased), writes through any handle,
legacy x.ufuncs calls, re-wrapping.  Model: NumPy itself on copies of the
storages -- every call is issued twice and the bytes must agree.
"""
import copy

import numpy as np

from ..core import (Violation, Reject, HarnessError, np_rng, elem_arrays,
                    fill_garbage, guarded_layout)
from .. import seams
from .. import spaces as SP

GARBAGE = ('nan', 'huge', 'stale', 'inf', 'zero')
DTYPES = ['float64'] * 4 + ['float32', 'float32', 'complex128', 'complex128',
                             'int64', 'int64', 'complex64', 'int32', 'int8',
                             'uint8', 'bool', 'float16', '>f8', '>i4']
HANDLES = ('arr', 'elem', 'view', 'tens')
METHODS = ('reduce', 'accumulate', 'outer', 'at', 'reduceat')


def _ufuncs():
    from odl.util.ufuncs import UFUNCS
    return [(n, nin, nout) for n, nin, nout, _ in UFUNCS]


def generate(rng, tier):
    kind = rng.choice(['tensor', 'tensor', 'discr', 'discr', 'power'])
    dtype = rng.choice(DTYPES)
    nd = rng.choice([1, 1, 1, 2, 2, 3])
    shape = [rng.randint(1, 5 if nd < 3 else 3) for _ in range(nd)]
    if kind == 'discr' and np.dtype(dtype).kind not in 'fc':
        dtype = 'float64'
    sp = {'kind': kind, 'dtype': dtype, 'shape': shape}
    if kind == 'power':
        sp['n'] = rng.randint(1, 3)
        sp['base'] = rng.choice(['tensor', 'discr'])
        if sp['base'] == 'discr' and np.dtype(dtype).kind not in 'fc':
            sp['dtype'] = 'float64'
    nst = rng.randint(2, 4)
    sp['layouts'] = [rng.choice(['C', 'C', 'F', 'strided']) for _ in range(nst)]
    ufs = _ufuncs()
    ops = []
    for _ in range(rng.randint(5, 14)):
        t = rng.choices(['call', 'method', 'setitem', 'legacy', 'wrap',
                         'legacy_reduce', 'asarray_out', 'view_write'],
                        [6, 4, 2, 2, 1, 1, 1, 1])[0]
        op = {'t': t}
        h = lambda: [rng.randrange(nst), rng.choice(HANDLES)]
        if t in ('call', 'legacy'):
            name, nin, nout = rng.choice(ufs)
            op.update({'uf': name, 'ins': [h() for _ in range(nin)]})
            r = rng.random()
            if r < 0.45:
                op['out'] = None
            elif r < 0.75:
                op['out'] = [h() for _ in range(nout)]
            else:           # out aliased with an input
                op['out'] = [list(op['ins'][rng.randrange(nin)])
                             for _ in range(nout)]
                if nout == 2:
                    op['out'][1] = h()
            if nout == 2 and op['out'] and rng.random() < 0.4:
                # only one of the two outs is given
                op['out'][rng.randrange(2)] = None
            if nin == 2 and rng.random() < 0.25:
                op['scalar_second'] = rng.choice([2, 0.5, -1])
            elif nin == 2 and kind != 'power' and rng.random() < 0.12:
                # second operand: a plain array of the element's shape but of
                # ANOTHER dtype (seed z17) -- NumPy promotes, so must odl
                op['foreign_second'] = [rng.choice(
                    ['float64', 'float32', 'complex128', 'int64', 'float16',
                     'int8', 'complex64']), rng.getrandbits(16)]
                op['ins'][0][1] = rng.choice(['elem', 'tens'])
                if rng.random() < 0.5:
                    op['foreign_first'] = True
            elif nin == 2 and kind == 'tensor' and rng.random() < 0.08:
                # a LARGER operand the element broadcasts against: a plain
                # array of shape (2,) + element shape (NumPy gives a result of
                # that shape; a discretized element has no partition for it
                # and documents the rejection)
                op['bigger_second'] = rng.getrandbits(16)
                op['ins'][0][1] = rng.choice(['elem', 'tens'])
                op['out'] = None
                if rng.random() < 0.5:
                    op['foreign_first'] = True
            elif nin == 2 and kind == 'power' and rng.random() < 0.4:
                # second operand from the base space (element or plain
                # array): NumPy broadcasts it against every part
                op['base_second'] = rng.choice(['elem', 'arr'])
            if rng.random() < 0.1:
                op['dtype'] = rng.choice(['float64', 'complex128'])
            if t == 'legacy':
                # legacy form: x.ufuncs.<name>(..., out=) with out of the
                # kind of x (element / tensor) or a plain array
                op['ins'][0][1] = rng.choice(['elem', 'tens'])
                for o_ in (op['out'] or []):
                    if o_ is not None:
                        o_[1] = rng.choice([op['ins'][0][1], 'arr'])
        elif t == 'method':
            name = rng.choice(['add', 'multiply', 'maximum', 'minimum',
                               'subtract', 'logaddexp', 'hypot',
                               'logical_and', 'bitwise_or'])
            m = rng.choice(METHODS)
            op.update({'uf': name, 'm': m, 'ins': [h(), h()],
                       'axis': rng.choice([None, 0, -1, 0, 1, [0, 1], [0, -1],
                                           2, [0, 2], [1, 2], [-1, 0]]),
                       'keepdims': rng.random() < 0.3,
                       'out': h() if rng.random() < 0.3 else None})
            if rng.random() < 0.15:
                op['dtype'] = rng.choice(['float64', 'complex128'])
            # indices for `at` (first axis), with repeats more often than not
            op['at_idx'] = [rng.randrange(0, 5) for _ in range(rng.randint(1, 4))]
            if rng.random() < 0.5:
                op['at_idx'].append(op['at_idx'][0])
            op['at_val'] = rng.choice([2, 1, -1, 3])
            if m == 'at' and rng.random() < 0.4:
                # values of `at` from another storage through any handle
                # (seed a17: the element is then a NON-first operand and the
                # target may be a plain array)
                op['at_vals'] = h()
            if m == 'outer' and rng.random() < 0.5:
                # second operand from a space of another size
                op['outer_other'] = rng.randint(1, 4)
        elif t == 'setitem':
            op.update({'h': h(), 'idx': rng.choice(['all', 'first', 'last',
                                                    'slice', 'mask']),
                       'val': rng.choice([0, 1.5, -2, 7, 'elem', 'arr'])})
            op['src'] = rng.randrange(nst)
        elif t == 'legacy_reduce':
            op.update({'h': [rng.randrange(nst), rng.choice(['elem', 'tens'])],
                       'name': rng.choice(['sum', 'prod', 'min', 'max']),
                       'axis': rng.choice([None, 0, -1, 1]),
                       'keepdims': rng.random() < 0.2,
                       'out': rng.random() < 0.3,
                       'dtype': rng.choice([None, None, 'float64'])})
        elif t == 'asarray_out':
            op.update({'s': rng.randrange(nst),
                       'order': rng.choice(['C', 'F'])})
        elif t == 'wrap':
            op['s'] = rng.randrange(nst)
        elif t == 'view_write':
            # x[index] is documented as a writable view (except for lists):
            # a write through it must land in the storage
            op.update({'h': [rng.randrange(nst), rng.choice(['elem', 'tens'])],
                       'idx': rng.choice(['slice', 'tail', 'first', 'ellipsis',
                                          'col']),
                       'val': rng.choice([0, 1.5, -2, 7]),
                       'how': rng.choice(['setitem', 'ufunc'])})
        op['fill'] = rng.choice(GARBAGE)
        ops.append(op)
    if kind == 'power':
        # NumPy call mixing a power-space element with an *element* of the
        # base space: a recorded finding, only tried as the last operation
        # of a run so that it does not cut histories short
        for op in ops[:-1]:
            if op.get('base_second') == 'elem' and op['t'] == 'call':
                op['base_second'] = 'arr'
        for _ in range(rng.randint(0, 2)):
            ops.insert(rng.randrange(len(ops)),
                       {'t': 'power_reduce', 's': rng.randrange(nst),
                        'name': rng.choice(['sum', 'prod', 'min', 'max']),
                        'fill': 'zero'})
        if rng.random() < 0.25:
            # a NaN somewhere (not necessarily in the first part)
            sp['nan_at'] = [rng.randrange(nst), rng.getrandbits(12)]
        for _ in range(rng.randint(0, 2)):
            ops.insert(rng.randrange(len(ops)),
                       {'t': 'np_asarray', 's': rng.randrange(nst),
                        'dtype': rng.choice([None, 'float32', 'complex128',
                                             'float64']), 'fill': 'zero'})
        for _ in range(rng.randint(0, 2)):
            # conversion for NumPy, then a write through one PART of the
            # element (x[k] *= 2 is arithmetic on the part's own space), then
            # conversion again (seed e17: whatever the container remembers
            # from the first conversion is stale)
            ops.insert(rng.randrange(len(ops)),
                       {'t': 'part_write', 's': rng.randrange(nst),
                        'k': rng.randrange(3), 'fill': 'zero'})
    return {'space': sp, 'nst': nst, 'ops': ops,
            'garbage': rng.choice(GARBAGE[:4]),
            'global_seed': rng.getrandbits(31), 'xseed': rng.getrandbits(32)}


def simplify(plan):
    for i, op in enumerate(plan['ops']):
        if op.get('out') and op['t'] in ('call', 'legacy'):
            c = copy.deepcopy(plan)
            c['ops'][i]['out'] = None
            yield c


# --------------------------------------------------------------------------

class Store(object):
    """One storage with its handles (tensor / discretized spaces)."""

    def __init__(self, space, arr, model):
        self.space = space
        self.arr = arr
        self.elem = space.element(arr)
        # the model array is built by the same recipe as the storage, so it
        # has the *same strides*: NumPy picks different inner loops (SIMD /
        # FMA) depending on the strides, which differ in the last bit
        self.model = model

    def handle(self, kind):
        if kind == 'arr':
            return self.arr
        if kind == 'elem':
            return self.elem
        if kind == 'tens':
            return getattr(self.elem, 'tensor', self.elem)
        if kind == 'view':
            return self.elem.asarray()
        raise HarnessError(kind)


def _layout(vals, lay):
    return guarded_layout(vals, lay)


def _build_space(sp):
    o = SP.odl()
    k = sp['kind'] if sp['kind'] != 'power' else sp['base']
    if k == 'tensor':
        S = o.tensor_space(tuple(sp['shape']), dtype=sp['dtype'])
    else:
        nd = len(sp['shape'])
        S = o.uniform_discr([0.0] * nd, [1.0] * nd, sp['shape'],
                            dtype=sp['dtype'])
    return S


def execute(plan, ctx):
    seams.begin_run(plan.get('global_seed', 0))
    sp = plan['space']
    with seams.allocator('zero'):
        S = _build_space(sp)
    if sp['kind'] == 'power':
        return _execute_power(plan, ctx, S)
    g = np_rng('c17', plan['xseed'])
    stores = []
    for s in range(plan['nst']):
        arr = SP.rand_array(S.shape, S.dtype, g)
        if np.dtype(S.dtype).kind in 'iu':
            arr = np.asarray(g.integers(1, 6, size=S.shape)).astype(S.dtype)
        lay = (sp.get('layouts') or ['C'])[s % len(sp.get('layouts') or ['C'])]
        vals = arr
        arr, model = _layout(vals, lay), _layout(vals, lay)
        st = Store(S, arr, model)
        # wrapping an array of matching dtype and shape shares memory
        ea = elem_arrays(st.elem)[0]
        if not np.shares_memory(ea, arr):
            raise Violation('C17', 'C17/wrap-copies/' + sp['kind'],
                            'space.element(arr) did not share memory with '
                            'arr (dtype {}, shape {})'.format(arr.dtype,
                                                               arr.shape))
        stores.append(st)
    run = Run(plan, S, stores, ctx)
    for op in plan['ops']:
        try:
            run.step(op)
        except Reject:
            continue
        ctx.step()
        run.coherence(op)


class Run(object):
    def __init__(self, plan, S, stores, ctx):
        self.plan, self.S, self.stores, self.ctx = plan, S, stores, ctx
        self.kind = plan['space']['kind']
        self.gk = plan['garbage']

    def viol(self, what, site, msg):
        raise Violation('C17', 'C17/{}/{}'.format(what, site), msg)

    def coherence(self, op):
        for s, st in enumerate(self.stores):
            if _bits(st.arr) != _bits(st.model):
                self.viol('storage-mismatch', self.kind + '/' + op['t'] + '/' +
                          op.get('uf', ''),
                          'after {}: storage {} differs from NumPy applied to '
                          'the model array'.format(_short(op), s))
            for hk in HANDLES:
                v = np.asarray(st.handle(hk))
                if _bits(v) != _bits(st.arr):
                    self.viol('handle-incoherent', self.kind + '/' + hk,
                              'after {}: handle {!r} of storage {} does not '
                              'show the bytes of the storage'.format(
                                  _short(op), hk, s))
                if not np.shares_memory(v, st.arr):
                    self.viol('handle-not-shared', self.kind + '/' + hk,
                              'handle {!r} no longer shares memory with its '
                              'array'.format(hk))

    # ------------------------------------------------------------------
    def step(self, op):
        t = op['t']
        if t == 'setitem':
            return self.setitem(op)
        if t == 'wrap':
            return self.wrap(op)
        if t in ('call', 'legacy'):
            return self.call(op)
        if t == 'method':
            return self.method(op)
        if t == 'legacy_reduce':
            return self.legacy_reduce(op)
        if t == 'view_write':
            return self.view_write(op)
        if t == 'asarray_out':
            return self.asarray_out(op)
        raise HarnessError(t)

    def setitem(self, op):
        s, hk = op['h']
        st = self.stores[s]
        if op['idx'] == 'mask':
            idx = np.abs(st.model) > np.median(np.abs(st.model))
        else:
            idx = {'all': slice(None), 'first': 0, 'last': -1,
                   'slice': slice(0, 2)}[op['idx']]
        val = op['val']
        if val in ('elem', 'arr'):
            if op['idx'] != 'all':
                raise Reject('whole-element assignment only')
            src = self.stores[op.get('src', 0) % len(self.stores)]
            mval = np.array(src.model, copy=True)
            val = src.elem if val == 'elem' else np.array(src.arr, copy=True)
            try:
                st.model[idx] = mval
            except Exception:
                raise Reject('numpy rejects')
            h = st.handle(hk)
            try:
                h[idx] = val
            except Exception as e:
                self.viol('setitem-raise', self.kind + '/' + hk,
                          'h[:] = <{}> through handle {!r} raised {}: {}'
                          ''.format(op['val'], hk, type(e).__name__,
                                    str(e)[:120]))
            self.ctx.event('setitem', s, hk, op['idx'], op['val'])
            self.ctx.covered('setitem', hk, op['idx'], op['val'], self.kind,
                             str(self.S.dtype))
            return
        if np.dtype(self.S.dtype).kind in 'iu':
            val = int(val)
        try:
            st.model[idx] = val
        except Exception:
            raise Reject('numpy rejects')
        h = st.handle(hk)
        try:
            h[idx] = val
        except Exception as e:
            self.viol('setitem-raise', self.kind + '/' + hk,
                      'h[{}] = {} through handle {!r} raised {}: {}'.format(
                          op['idx'], val, hk, type(e).__name__, str(e)[:120]))
        self.ctx.event('setitem', s, hk, op['idx'])
        self.ctx.covered('setitem', hk, op['idx'], self.kind,
                         str(self.S.dtype))

    def view_write(self, op):
        s, hk = op['h']
        st = self.stores[s]
        nd = st.model.ndim
        idx = {'slice': slice(0, 2), 'tail': slice(1, None), 'first': 0,
               'ellipsis': Ellipsis,
               'col': (slice(None), slice(0, 1)) if nd >= 2 else slice(0, 1)
               }[op['idx']]
        try:
            mv = st.model[idx]
        except Exception:
            raise Reject('numpy rejects')
        if not isinstance(mv, np.ndarray) or mv.ndim == 0 or mv.size == 0:
            raise Reject('scalar result')
        val = op['val']
        if np.dtype(self.S.dtype).kind in 'iub':
            val = int(val)
        h = st.handle(hk)
        try:
            v = h[idx]
        except Exception as e:
            self.viol('getitem-raise', self.kind + '/' + hk,
                      'h[{}] raised {}: {}'.format(op['idx'],
                                                   type(e).__name__,
                                                   str(e)[:120]))
        va = np.asarray(v)
        if va.shape != mv.shape or _bits(va) != _bits(mv):
            self.viol('getitem-value', self.kind + '/' + hk,
                      'h[{}] differs from the array indexed the same way'
                      ''.format(op['idx']))
        try:
            if op['how'] == 'setitem':
                mv[...] = val
                v[...] = val
            else:
                with np.errstate(all='ignore'):
                    np.add(mv, val, out=mv, casting='unsafe')
                    np.add(v, val, out=v, casting='unsafe')
        except Exception as e:
            self.viol('view-write-raise', self.kind + '/' + hk,
                      'writing through h[{}] raised {}: {}'.format(
                          op['idx'], type(e).__name__, str(e)[:120]))
        # coherence (checked by the caller) now requires the write to have
        # landed in the storage
        self.ctx.event('view_write', s, hk, op['idx'], op['how'])
        self.ctx.covered('view_write', hk, op['idx'], op['how'], self.kind,
                         str(self.S.dtype))

    def wrap(self, op):
        st = self.stores[op['s']]
        e2 = self.S.element(st.arr)
        if not np.shares_memory(elem_arrays(e2)[0], st.arr):
            self.viol('wrap-copies', self.kind,
                      'space.element(arr) copied an array of matching dtype '
                      'and shape')
        back = e2.asarray()
        if _bits(back) != _bits(st.arr):
            self.viol('asarray-roundtrip', self.kind,
                      'element(arr).asarray() differs from arr')
        e3 = self.S.element(st.elem)
        if e3 is not st.elem:
            self.viol('element-identity', self.kind,
                      'space.element(x) did not return x itself')
        self.ctx.event('wrap', op['s'])
        self.ctx.covered('wrap', self.kind, str(self.S.dtype))

    def _prep_out(self, outs, ins, op):
        """Garbage into out storages that are not inputs (mirrored into the
        model so that partially written outs still compare)."""
        in_s = set(s for s, _ in ins)
        for t, o_ in enumerate(outs or []):
            if o_ is None:
                continue
            s, hk = o_
            if s not in in_s:
                st = self.stores[s]
                used = fill_garbage(st.arr, op['fill'], t)
                st.model[...] = st.arr
                self.ctx.fired('out-' + str(used))

    def call(self, op):
        uf = getattr(np, op['uf'])
        ins, outs = op['ins'], op.get('out')
        legacy = op['t'] == 'legacy'
        self._prep_out(outs, ins, op)
        m_in = [self.stores[s].model for s, _ in ins]
        r_in = [self.stores[s].handle(hk) for s, hk in ins]
        if 'scalar_second' in op and len(ins) == 2:
            m_in[1] = r_in[1] = op['scalar_second']
        elif 'foreign_second' in op and len(ins) == 2:
            fdt, fseed = op['foreign_second']
            if np.dtype(fdt) == m_in[0].dtype:
                raise Reject('foreign operand of the same dtype')
            g = np_rng('foreign', fseed)
            far = (g.standard_normal(m_in[0].shape) * 3).astype(fdt)
            m_in[1], r_in[1] = far, far.copy()
            if op.get('foreign_first'):
                m_in.reverse()
                r_in.reverse()
            self.ctx.fired('foreign-dtype-array-operand')
        elif 'bigger_second' in op and len(ins) == 2 and not outs:
            g = np_rng('bigger', op['bigger_second'])
            big = (g.standard_normal((2,) + m_in[0].shape) * 3).astype(
                m_in[0].dtype)
            m_in[1], r_in[1] = big, big.copy()
            if op.get('foreign_first'):
                m_in.reverse()
                r_in.reverse()
            self.ctx.fired('broadcast-against-larger-array')
        kw = {}
        if op.get('dtype'):
            kw['dtype'] = op['dtype']
        m_out = r_out = None
        if outs:
            given = [o_ for o_ in outs if o_ is not None]
            m_out = tuple(None if o_ is None else self.stores[o_[0]].model
                          for o_ in outs)
            r_out = tuple(None if o_ is None else
                          self.stores[o_[0]].handle(o_[1]) for o_ in outs)
            if len(set(id(x) for x in m_out if x is not None)) != len(given):
                raise Reject('same storage twice as out')
        # the model: NumPy on copies of the inputs (aliasing preserved by
        # passing the very model arrays)
        snap = [np.array(st.model, copy=True) for st in self.stores]
        try:
            with np.errstate(all='ignore'):
                if m_out:
                    m_res = uf(*m_in, out=m_out if len(m_out) > 1 else m_out[0],
                               **kw)
                else:
                    m_res = uf(*m_in, **kw)
        except Exception:
            for st, sn in zip(self.stores, snap):
                st.model[...] = sn
            raise Reject('numpy rejects this call')
        # a handle that is a *view* created before (asarray) is fine as out;
        # the element's first input decides the dispatch
        first_elem = any(hasattr(x, 'space') for x in r_in) or (
            r_out and any(hasattr(x, 'space') for x in r_out
                          if x is not None))
        if not first_elem:
            # plain NumPy on plain arrays: nothing of odl is involved
            with np.errstate(all='ignore'):
                if r_out:
                    uf(*r_in, out=r_out if len(r_out) > 1 else r_out[0], **kw)
                else:
                    uf(*r_in, **kw)
            raise Reject('no odl operand')
        fired = {}
        try:
            with seams.allocator(self.gk, salt=41, fired=fired):
                if legacy:
                    x0 = r_in[0]
                    if not hasattr(x0, 'ufuncs') or kw or (
                            r_out and any(x is None for x in r_out)):
                        raise Reject('legacy form needs an element first')
                    fn = getattr(x0.ufuncs, op['uf'])
                    args = r_in[1:]
                    if r_out:
                        res = fn(*args, out=(r_out if len(r_out) > 1
                                             else r_out[0]))
                    else:
                        res = fn(*args)
                else:
                    if r_out:
                        res = uf(*r_in, out=(r_out if len(r_out) > 1
                                             else r_out[0]), **kw)
                    else:
                        res = uf(*r_in, **kw)
        except Reject:
            for st, sn in zip(self.stores, snap):
                st.model[...] = sn
            raise
        except Exception as e:
            site = '{}/{}/{}'.format(self.kind, 'legacy' if legacy else 'call',
                                     _outkind(r_out))
            self.viol('raise', site + '/' + type(e).__name__,
                      '{} raised {}: {} although NumPy accepts the call on '
                      'the underlying arrays'.format(_short(op),
                                                     type(e).__name__,
                                                     str(e)[:160]))
        for k_, v_ in fired.items():
            self.ctx.fired('alloc-' + k_, v_)
        site = '{}/{}/{}'.format(self.kind, op['uf'],
                                 'legacy' if legacy else 'call')
        self._compare(res, m_res, r_out, site, op)
        self.ctx.event(op['t'], op['uf'], str(op['ins']), str(outs))
        self.ctx.covered(op['uf'], op['t'], _outkind(r_out), _alias(ins, outs),
                         str(self.S.dtype), self.kind,
                         ''.join(hk[0] for _, hk in ins))

    def _compare(self, res, m_res, r_out, site, op):
        many = isinstance(m_res, tuple)
        rs = res if isinstance(res, tuple) else (res,)
        ms = m_res if many else (m_res,)
        if len(rs) != len(ms):
            self.viol('result-arity', site,
                      '{}: {} results, NumPy gives {}'.format(
                          _short(op), len(rs), len(ms)))
        for q, (r, m) in enumerate(zip(rs, ms)):
            if r_out is not None and r_out[q] is not None:
                if r is not r_out[q]:
                    self.viol('out-identity', site,
                              '{}: the object given as out was not returned'
                              ''.format(_short(op)))
                continue    # values are checked through storage coherence
            if m is None:
                if r is not None:
                    self.viol('result-type', site, 'expected None')
                continue
            ra = np.asarray(r)
            ma = np.asarray(m)
            if ra.shape != ma.shape or ra.dtype != ma.dtype or \
                    _bits(ra) != _bits(ma):
                self.viol('value', site,
                          '{}: result (dtype {}, shape {}) differs from NumPy '
                          'on the underlying arrays (dtype {}, shape {})'
                          ''.format(_short(op), ra.dtype, ra.shape, ma.dtype,
                                    ma.shape))
            if ma.ndim > 0 and not hasattr(r, 'space'):
                self.viol('result-not-element', site,
                          '{}: array-valued result is not a space element '
                          '({})'.format(_short(op), type(r).__name__))
            if hasattr(r, 'space'):
                o = SP.odl()
                from odl.space.base_tensors import TensorSpace
                ok = isinstance(r.space, (TensorSpace, o.DiscretizedSpace))
                if not ok:
                    self.viol('result-space-kind', site,
                              'result space {!r:.60}'.format(r.space))

    def method(self, op):
        uf = getattr(np, op['uf'])
        m = op['m']
        ins = op['ins']
        out = op.get('out')
        if self.kind == 'discr':
            if m == 'reduceat':
                raise Reject('documented: reduceat not supported on '
                             'discretized elements')
            if m == 'outer':
                # documented: both operands must be discretized elements
                ins = [[s_, 'elem'] for s_, _ in ins]
        if m in ('reduce', 'accumulate', 'reduceat', 'at'):
            ins = ins[:1]
        if m == 'at':
            out = None
        self._prep_out([out] if out else None, ins, op)
        kw = {}
        if m in ('reduce', 'accumulate', 'reduceat'):
            ax = op.get('axis')
            if isinstance(ax, list):
                # axis tuples are a feature of reduce only
                ax = tuple(ax) if m == 'reduce' else ax[-1]
            if m == 'reduce':
                kw['axis'] = ax
                if op.get('keepdims'):
                    if self.kind == 'discr':
                        raise Reject('documented ValueError (keepdims on '
                                     'discretized elements)')
                    kw['keepdims'] = True
            else:
                kw['axis'] = 0 if ax is None else ax
        if op.get('dtype') and m != 'at':
            kw['dtype'] = op['dtype']
        m_in = [self.stores[s].model for s, _ in ins]
        r_in = [self.stores[s].handle(hk) for s, hk in ins]
        if m == 'outer' and op.get('outer_other') and len(r_in) == 2:
            k = op['outer_other']
            o = SP.odl()
            dt = self.S.dtype
            if self.kind == 'discr':
                S2 = o.uniform_discr(0.0, 1.0, k, dtype=dt)
            else:
                S2 = o.tensor_space((k,), dtype=dt)
            g2 = np_rng('c17-outer', self.plan['xseed'], k)
            a2 = SP.rand_array((k,), dt, g2)
            if np.dtype(dt).kind in 'iu':
                a2 = np.asarray(g2.integers(1, 6, size=(k,))).astype(dt)
            m_in[1] = np.array(a2, copy=True)
            with seams.allocator('zero'):
                r_in[1] = S2.element(np.array(a2, copy=True))
            self.ctx.fired('outer-other-size')
        extra = []
        extra_m = None
        if m == 'at':
            n0 = len(m_in[0])
            idx = [i % n0 for i in op.get('at_idx', [0, n0 - 1])]
            extra = [idx] if uf.nin == 1 else [idx, op.get('at_val', 2)]
            if uf.nin == 2 and op.get('at_vals'):
                vs, vh = op['at_vals']
                if vs == ins[0][0]:
                    raise Reject('values of `at` from the target storage')
                # a rotation of the first axis: values of the full shape fit
                idx = [(i + idx[0]) % n0 for i in range(n0)]
                extra_m = [idx, self.stores[vs].model]
                extra = [idx, self.stores[vs].handle(vh)]
                self.ctx.fired('at-values-' + vh)
        if m == 'reduceat':
            try:
                extra = [[0, max(0, m_in[0].shape[kw['axis']] - 1)]]
            except IndexError:
                raise Reject('axis out of range')
        m_out = r_out = None
        if out:
            # the out array must have the result's shape: use a fresh array
            # / element of that shape (numpy decides the shape)
            pass
        snap = [np.array(st.model, copy=True) for st in self.stores]
        try:
            with np.errstate(all='ignore'):
                m_res = getattr(uf, m)(*(m_in + (extra_m or extra)), **kw)
        except Exception:
            for st, sn in zip(self.stores, snap):
                st.model[...] = sn
            raise Reject('numpy rejects this call')
        if not any(hasattr(x, 'space') for x in r_in + extra[1:]):
            getattr(uf, m)(*(r_in + extra), **kw)
            raise Reject('no odl operand')
        site = '{}/{}.{}'.format(self.kind, op['uf'], m)
        out_arr = None
        if out and m == 'reduce' and isinstance(m_res, np.generic):
            # a reduction over all axes into a zero-dimensional out
            m_res = np.asarray(m_res)
            self.ctx.fired('reduce-into-0d-out')
        if out and m != 'at' and isinstance(m_res, np.ndarray):
            out_arr = np.empty(m_res.shape, dtype=m_res.dtype)
            fill_garbage(out_arr, op['fill'], 3)
            # the model writes into an out of the same layout: NumPy's
            # reduction order (and with it the last bit of complex products)
            # depends on the layout of the output
            for st, sn in zip(self.stores, snap):
                st.model[...] = sn
            m_out = np.empty(m_res.shape, dtype=m_res.dtype)
            with np.errstate(all='ignore'):
                m_res = getattr(uf, m)(*(m_in + extra), out=m_out, **kw)
            kw['out'] = out_arr
        fired = {}
        try:
            with seams.allocator(self.gk, salt=42, fired=fired):
                res = getattr(uf, m)(*(r_in + extra), **kw)
        except Exception as e:
            self.viol('raise', site + '/' + type(e).__name__,
                      '{} raised {}: {} although NumPy accepts the call on '
                      'the underlying arrays'.format(_short(op),
                                                     type(e).__name__,
                                                     str(e)[:160]))
        for k_, v_ in fired.items():
            self.ctx.fired('alloc-' + k_, v_)
        if out_arr is not None:
            if res is not out_arr:
                self.viol('out-identity', site,
                          '{}: the array given as out was not returned'.format(
                              _short(op)))
            if _bits(out_arr) != _bits(m_res):
                self.viol('value', site,
                          '{}: out array differs from NumPy'.format(_short(op)))
        else:
            self._compare(res, m_res, None, site, op)
        self.ctx.event('method', op['uf'], m, str(ins))
        self.ctx.covered(op['uf'], m, 'out' if out_arr is not None else 'noout',
                         str(kw.get('axis')), str(kw.get('keepdims')),
                         str(self.S.dtype), self.kind)


def _legacy_reduce(self, op):
    s, hk = op['h']
    st = self.stores[s]
    x = st.handle(hk)
    if not hasattr(x, 'ufuncs'):
        raise Reject('no element')
    name = op['name']
    npf = {'sum': np.add, 'prod': np.multiply, 'min': np.minimum,
           'max': np.maximum}[name]
    kw = {'axis': op['axis'], 'keepdims': bool(op['keepdims'])}
    if op.get('dtype'):
        kw['dtype'] = op['dtype']
    if self.kind == 'discr' and kw['keepdims']:
        raise Reject('documented ValueError')
    try:
        with np.errstate(all='ignore'):
            m_res = npf.reduce(st.model, **kw)
    except Exception:
        raise Reject('numpy rejects')
    out_arr = None
    if op.get('out') and isinstance(m_res, np.ndarray):
        out_arr = np.empty(m_res.shape, dtype=m_res.dtype)
        fill_garbage(out_arr, op['fill'], 5)
        m_out = np.empty(m_res.shape, dtype=m_res.dtype)
        with np.errstate(all='ignore'):
            m_res = npf.reduce(st.model, out=m_out, **kw)
    site = '{}/legacy.{}'.format(self.kind, name)
    try:
        with seams.allocator(self.gk, salt=44):
            res = getattr(x.ufuncs, name)(out=out_arr, **kw)
    except Exception as e:
        self.viol('raise', site + '/' + type(e).__name__,
                  'x.ufuncs.{}({}) raised {}: {} although NumPy accepts the '
                  'reduction on the underlying array'.format(
                      name, kw, type(e).__name__, str(e)[:160]))
    if out_arr is not None:
        if res is not out_arr:
            self.viol('out-identity', site, 'out array not returned')
        if _bits(out_arr) != _bits(m_res):
            self.viol('value', site, 'x.ufuncs.{}({}, out=) differs from '
                      'NumPy'.format(name, kw))
    else:
        self._compare(res, m_res, None, site, op)
    self.ctx.event('legacy_reduce', name, str(kw))
    self.ctx.covered('legacy.' + name, str(op['axis']), str(op['keepdims']),
                     'out' if out_arr is not None else 'noout',
                     str(self.S.dtype), self.kind)


def _asarray_out(self, op):
    st = self.stores[op['s']]
    out = np.empty(st.model.shape, dtype=st.model.dtype, order=op['order'])
    fill_garbage(out, op['fill'], 6)
    try:
        res = st.elem.asarray(out=out)
    except Exception as e:
        self.viol('raise', self.kind + '/asarray-out/' + type(e).__name__,
                  'x.asarray(out=<{}-ordered array>) raised {}: {}'.format(
                      op['order'], type(e).__name__, str(e)[:120]))
    if res is not out:
        self.viol('out-identity', self.kind + '/asarray-out',
                  'x.asarray(out=arr) did not return arr')
    if not np.array_equal(out, st.model, equal_nan=True):
        self.viol('value', self.kind + '/asarray-out',
                  'x.asarray(out=arr) did not copy the values')
    if np.shares_memory(out, st.arr):
        self.viol('asarray-out-shares', self.kind,
                  'x.asarray(out=arr): arr shares memory with the element')
    self.ctx.event('asarray_out', op['s'], op['order'])
    self.ctx.covered('asarray_out', op['order'], self.kind, str(self.S.dtype))


Run.legacy_reduce = _legacy_reduce
Run.asarray_out = _asarray_out


def _execute_power(plan, ctx, base):
    """Power-space elements: calls without out (they go through
    __array__/__array_wrap__) and the legacy interface with out."""
    o = SP.odl()
    sp = plan['space']
    P = o.ProductSpace(base, sp['n'])
    g = np_rng('c17p', plan['xseed'])
    with seams.allocator('zero'):
        xs = [SP.rand_elem(P, g, positive=True) for _ in range(plan['nst'])]
        bs = [SP.rand_elem(base, g, positive=True) for _ in range(2)]
        # elements whose parts are views into ONE array (space.element(arr),
        # like results of NumPy calls), and re-ordered / repeated selections
        # of their parts: asarray() has to follow the parts, not the array
        try:
            full = np.stack([np.asarray(p_.asarray()) for p_ in xs[0].parts])
            one = P.element(np.array(full, copy=True))
            derived = [one]
            if len(one) > 1:
                derived += [one[::-1], one[[len(one) - 1] + list(
                    range(len(one) - 1))]]
            for q, dx in enumerate(derived):
                if hasattr(dx, 'parts') and dx.space == P:
                    xs[(q + 1) % len(xs)] = dx
                    ctx.fired('power-element-from-one-array')
        except Exception:
            pass
    if sp.get('nan_at') and np.dtype(sp['dtype']).kind in 'fc':
        k_, pos = sp['nan_at']
        arrs = elem_arrays(xs[k_ % len(xs)])
        a_ = arrs[pos % len(arrs)]
        if a_.size:
            a_[np.unravel_index((pos // 7) % a_.size, a_.shape)] = np.nan
            ctx.fired('power-nan-entry')
    for op in plan['ops']:
        if op['t'] == 'power_reduce':
            # legacy reductions of product-space elements against NumPy on
            # the stacked array (NaN propagates; sums of parts are re-ordered
            # sums, hence a tolerance for sum / prod)
            x = xs[op['s']]
            full = np.stack([np.asarray(p_.asarray()) for p_ in x.parts])
            npf = getattr(np, op['name'])
            try:
                with np.errstate(all='ignore'):
                    want = npf(full)
            except Exception:
                continue
            try:
                with np.errstate(all='ignore'):
                    got = getattr(x.ufuncs, op['name'])()
            except Exception as e:
                raise Violation('C17', 'C17/raise/power/legacy.{}/{}'.format(
                    op['name'], type(e).__name__),
                    'X.ufuncs.{}() raised {}: {}'.format(
                        op['name'], type(e).__name__, str(e)[:120]))
            with np.errstate(all='ignore'):
                same = (np.isnan(got) and np.isnan(want)) or got == want
                if not same and op['name'] in ('sum', 'prod') and \
                        np.dtype(sp['dtype']).kind in 'fc':
                    eps_ = np.finfo(np.dtype(sp['dtype'])).eps
                    same = abs(got - want) <= 64 * full.size * eps_ * (
                        abs(want) + np.sum(np.abs(full))
                        if op['name'] == 'sum' else abs(want) + 1e-300)
            if not same:
                raise Violation('C17', 'C17/value/power/legacy.' + op['name'],
                                'X.ufuncs.{}() = {!r} but np.{} of the '
                                'underlying array gives {!r}'.format(
                                    op['name'], got, op['name'], want))
            ctx.step()
            ctx.covered('legacy.' + op['name'], 'power', sp['dtype'])
            continue
        if op['t'] == 'part_write':
            x = xs[op['s']]
            if len(x.parts) == 0:
                continue
            np.asarray(x)
            with np.errstate(all='ignore'):
                p_ = x.parts[op['k'] % len(x.parts)]
                a_ = elem_arrays(p_)[0]       # the array the part wraps
                # (magnitudes are kept: float16 products overflow otherwise)
                if a_.dtype.kind in 'fci':
                    np.negative(a_, out=a_)
                else:
                    np.invert(a_, out=a_)
            want = np.stack([np.asarray(q.asarray()) for q in x.parts])
            got = np.asarray(x)
            nat_ = lambda a_: a_.astype(a_.dtype.newbyteorder('='))
            if got.shape != want.shape or \
                    _bits(nat_(got)) != _bits(nat_(want)):
                raise Violation('C17', 'C17/value/power/np.asarray-after-part-write',
                                'np.asarray(X) after a write into the array of part k differs '
                                'from the stacked parts')
            ctx.fired('power-part-written-between-conversions')
            ctx.step()
            continue
        if op['t'] == 'np_asarray':
            x = xs[op['s']]
            want = np.stack([np.asarray(p.asarray()) for p in x.parts])
            if op['dtype']:
                if np.dtype(sp['dtype']).kind == 'c' and \
                        np.dtype(op['dtype']).kind != 'c':
                    continue
                want = want.astype(op['dtype'])
            try:
                got = np.asarray(x, dtype=op['dtype'])
            except Exception as e:
                raise Violation('C17', 'C17/raise/power/np.asarray/' +
                                type(e).__name__,
                                'np.asarray(X, dtype={}) on a power-space '
                                'element raised {}: {}'.format(
                                    op['dtype'], type(e).__name__,
                                    str(e)[:120]))
            nat = lambda a_: a_.astype(a_.dtype.newbyteorder('='))
            if got.shape != want.shape or _bits(nat(got)) != _bits(nat(want)):
                raise Violation('C17', 'C17/value/power/np.asarray',
                                'np.asarray(X, dtype={}) differs from the '
                                'stacked parts'.format(op['dtype']))
            ctx.step()
            ctx.covered('np.asarray', 'power', str(op['dtype']), sp['dtype'])
            continue
        if op['t'] not in ('call', 'legacy'):
            continue
        uf = getattr(np, op['uf'])
        ins = [xs[s] for s, _ in op['ins']]
        m_in = [[np.array(p.asarray(), copy=True) for p in x.parts]
                for x in ins]
        if len(ins) == 2 and 'scalar_second' in op:
            ins[1] = op['scalar_second']
            m_in[1] = [op['scalar_second']] * len(P)
        elif len(ins) == 2 and op.get('base_second'):
            b = bs[op['ins'][1][0] % 2]
            ba = np.array(b.asarray(), copy=True)
            ins[1] = b if op['base_second'] == 'elem' else \
                np.array(ba, copy=True)
            m_in[1] = [ba] * len(P)
            ctx.fired('power-base-operand-' + op['base_second'])
        if uf.nout != 1:
            continue
        try:
            with np.errstate(all='ignore'):
                m_res = [uf(*[mi[k] for mi in m_in]) for k in range(len(P))]
        except Exception:
            continue
        if any(r.dtype != np.dtype(sp['dtype']) for r in m_res) and \
                op.get('out'):
            continue
        legacy = op['t'] == 'legacy'
        out = None
        try:
            with seams.allocator(plan['garbage'], salt=43):
                if legacy:
                    if op.get('out'):
                        out = P.element()
                        for a in elem_arrays(out):
                            fill_garbage(a, op['fill'], 1)
                        res = getattr(ins[0].ufuncs, op['uf'])(*ins[1:],
                                                               out=out)
                    else:
                        res = getattr(ins[0].ufuncs, op['uf'])(*ins[1:])
                elif op.get('out') and op['fill'] == 'nan' and \
                        op is plan['ops'][-1]:
                    # NumPy call with a product-space element as out (a
                    # recorded finding: only tried as the last operation of
                    # a run, so that it does not cut histories short)
                    out = P.element()
                    for a in elem_arrays(out):
                        fill_garbage(a, op['fill'], 1)
                    try:
                        res = uf(*ins, out=out)
                    except TypeError as e:
                        raise Violation(
                            'C17', 'C17/raise/power/call-with-out/TypeError',
                            'np.{}(X, out=Y) with product-space elements '
                            'raised TypeError: {}'.format(op['uf'],
                                                          str(e)[:120]))
                else:
                    res = uf(*ins)
        except Violation:
            raise
        except Exception as e:
            if not legacy and op.get('base_second') == 'elem' and \
                    'scalar_second' not in op:
                raise Violation(
                    'C17', 'C17/raise/power/call-mixed-with-base-element/' +
                    type(e).__name__,
                    'np.{}(X, v) with X in a power space and v an element of '
                    'its base space raised {}: {} (NumPy broadcasts the '
                    'underlying arrays)'.format(op['uf'], type(e).__name__,
                                                str(e)[:120]))
            raise Violation('C17', 'C17/raise/power/{}/{}'.format(
                'legacy' if legacy else 'call', type(e).__name__),
                '{} on power-space elements raised {}: {}'.format(
                    op['uf'], type(e).__name__, str(e)[:160]))
        if out is not None and res is not out:
            raise Violation('C17', 'C17/out-identity/power/legacy',
                            'x.ufuncs.{}(out=out) did not return out'.format(
                                op['uf']))
        mixed_elem = (not legacy and op.get('base_second') == 'elem' and
                      'scalar_second' not in op)
        if hasattr(res, 'parts') and len(res.parts) == len(m_res):
            part_arrays = [np.asarray(p.asarray()) for p in res.parts]
        elif mixed_elem and hasattr(res, 'asarray') and \
                np.asarray(res.asarray()).shape[:1] == (len(m_res),):
            # X from a power space mixed with an ELEMENT v of its base space:
            # the call is handled by v, and the (n, ...) result comes back
            # wrapped in a space of v's kind -- "of the same kind" as one of
            # the operands; the numbers are judged as usual
            ra = np.asarray(res.asarray())
            part_arrays = [ra[k] for k in range(len(m_res))]
            ctx.probe('power-mixed-with-base-element-result-of-base-kind')
        else:
            raise Violation('C17', 'C17/result-type/power/' + op['t'],
                            'result of {} is {!r:.60}'.format(op['uf'], res))
        for k, (pa, m) in enumerate(zip(part_arrays, m_res)):
            if out is None and pa.dtype != m.dtype:
                raise Violation('C17', 'C17/result-dtype/power/' + op['t'],
                                '{} on {} power-space elements: result dtype '
                                '{} but NumPy gives {} on the underlying '
                                'arrays'.format(op['uf'], sp['dtype'],
                                                pa.dtype, m.dtype))
            if pa.shape != m.shape or not _same_numbers(pa.astype(m.dtype),
                                                        m):
                if m.dtype != np.dtype(sp['dtype']):
                    raise Violation(
                        'C17', 'C17/value/power/dtype-changing-ufunc',
                        '{} on {} power-space elements: NumPy gives dtype {} '
                        'on the underlying arrays, the result is cast back '
                        'to the space dtype and the numbers differ'.format(
                            op['uf'], sp['dtype'], m.dtype))
                raise Violation('C17', 'C17/value/power/{}/{}'.format(
                    op['uf'], op['t']),
                    '{} on power-space elements: part {} differs from NumPy '
                    'on the underlying array'.format(op['uf'], k))
        ctx.step()
        ctx.event('power', op['uf'], op['t'])
        ctx.covered(op['uf'], op['t'], 'power', sp['base'], sp['dtype'],
                    'out' if out is not None else 'noout')


# --------------------------------------------------------------------------

def _same_numbers(a, m):
    """Bitwise equality, except for complex results: the power-space path
    evaluates one (n, ...) array where the model evaluates n parts, and
    NumPy's complex multiply / divide loops differ in the last bit (FMA)
    depending on shape and strides."""
    if _bits(a) == _bits(m):
        return True
    if m.dtype.kind != 'c' or a.shape != m.shape:
        return False
    with np.errstate(all='ignore'):
        for fa, fm in ((a.real, m.real), (a.imag, m.imag)):
            na, nm = np.isnan(fa), np.isnan(fm)
            if not np.array_equal(na, nm):
                return False
            ok = (fa == fm) | na | (np.abs(fa - fm) <= 8 * np.finfo(
                fm.dtype).eps * (np.abs(a) + np.abs(m)))
            if not np.all(ok):
                return False
    return True


def _bits(a):
    a = np.asarray(a)
    return str(a.dtype).encode() + str(a.shape).encode() + \
        np.ascontiguousarray(a).tobytes()


def _short(op):
    d = {k: v for k, v in op.items() if k not in ('fill',)}
    return str(d)[:160]


def _outkind(r_out):
    if not r_out:
        return 'noout'
    return '+'.join('none' if x is None else
                    'elem' if hasattr(x, 'space') else 'array' for x in r_out)


def _alias(ins, outs):
    if not outs:
        return '-'
    in_s = [s for s, _ in ins]
    return 'alias' if any(o_ is not None and o_[0] in in_s
                          for o_ in outs) else 'distinct'
