"""solversim -- simulation engine for C11 and C12.

C11: lockstep refinement against the shipped `_simple` references, crash /
resume with only caller-held state surviving, exactly-once callbacks.
C12: per-step invariants, fixed points, bounded liveness after faults stop
(see c12.py).
"""
import io

import numpy as np

from ..core import (Violation, Reject, SimCrash, HarnessError, elem_flat,
                    elem_digest, np_rng, max_abs, elem_arrays)
from .. import seams
from . import solver_instances as SI

GARBAGE_FOR_SOLVERS = ('nan', 'huge', 'stale', 'inf', 'denormal')

LOCKSTEP = ('admm', 'adupdates', 'doubleprox_dc')
RESUME = ('landweber', 'kaczmarz', 'proximal_gradient', 'mlem', 'osmlem',
          'steepest_descent', 'pdhg',
          # not named in the statement but of the same kind ("solvers whose
          # whole state is the iterate"): the d.c. solvers
          'prox_dca', 'dca')
CALLBACKS = ('landweber', 'cg', 'cg_normal', 'kaczmarz', 'mlem', 'osmlem',
             'steepest_descent', 'pdhg', 'douglas_rachford',
             'forward_backward', 'proximal_gradient',
             'accelerated_proximal_gradient', 'admm', 'adupdates', 'prox_dca',
             'dca', 'doubleprox_dc', 'gauss_newton', 'newton', 'bfgs',
             'broyden', 'nlcg', 'adam')

TIERS = {
    'C11': {'quick': {'runs': 32000, 'budget_s': 100, 'chunk': 50},
            'thorough': {'runs': 800000, 'budget_s': 1800, 'chunk': 200}},
    'C12': {'quick': {'runs': 16000, 'budget_s': 100, 'chunk': 30, 'hang_s': 300},
            'thorough': {'runs': 600000, 'budget_s': 1800, 'chunk': 100,
                         'hang_s': 600}},
}

RULE = {
    'C11': ('Each run draws one workload from {lockstep refinement of '
            'admm/adupdates/doubleprox_dc against the shipped _simple '
            'reference, crash/resume of the solvers whose state the caller '
            'holds, exactly-once callbacks}; a seeded problem instance '
            '(space, linear operator with exact adjoint, library '
            'functionals, admissible steps, start point); a schedule '
            '(segment lengths, return-vs-crash boundaries, restart flavour, '
            'forced permutations) and an allocator garbage kind. A case is '
            'distinct by (workload, solver, functional families, operator '
            'kind, space kind, schedule shape, restart flavour, garbage '
            'kind) and non-trivial when at least 2 iterations changed x.'),
    'C12': ('Each run draws one invariant workload (monotone quantity per '
            'step, fixed point, bounded liveness via eps-KKT residual after '
            'the last fault) for one solver on a seeded problem instance; '
            'distinct by (solver, invariant, problem family, conditioning '
            'bucket, schedule/fault kind), non-trivial when the invariant '
            'quantity changed by more than 1% over the run.'),
}

COMPONENTS = {
    'real': ['odl (all solver, operator, functional and space code from '
             '/repo working tree)', 'numpy', 'scipy BLAS'],
    'stub': ['allocator fill wrapper (numpy.empty/empty_like from odl.* '
             'frames)', 'seeded numpy global RNG + forced '
             'numpy.random.permutation', 'crashing/recording callbacks',
             'box projection passed as user `projection`',
             'harness-side dense matrices / SVD norms / KKT oracle',
             'textbook NumPy PDHG used only as easy-instance filter (C12)'],
}

ASSUMPTIONS = {
    'C11': ['problem instances are restricted to operators whose adjoint is '
            'exact for the instance (filter, not check)',
            'step sizes admissible, so that rounding differences between two '
            'implementations are not amplified',
            'resumption is compared at 1e-12 relative, lockstep at '
            'max(1e-9, 64 eps amp^k) relative',
            'a clean batch is evidence, not proof'],
    'C12': ['invariants are checked on finite-dimensional instances of '
            'dimension <= 8 with exact adjoints and admissible steps',
            'liveness bound N=3000 iterations, residual factor 1e-3, only on '
            'instances an independent textbook PDHG solves 10x faster; an '
            'iterate that is by then within 1e-3 of the point verified by '
            'the reference solve gets 30000 iterations in one uninterrupted '
            'run (active-set identification next to a kink)',
            'a clean batch is evidence, not proof'],
}


# --------------------------------------------------------------------------
# helpers
# --------------------------------------------------------------------------

class Recorder(object):
    """Callback handed to solvers: records every iterate it is shown and
    raises SimCrash at the planned invocation."""

    def __init__(self, crash_at=None, keep=True):
        self.count = 0
        self.iters = []
        self.crash_at = crash_at
        self.keep = keep
        self.spaces_ok = True
        self.space = None

    def __call__(self, x):
        self.count += 1
        if self.space is not None and x not in self.space:
            self.spaces_ok = False
        if self.keep:
            self.iters.append(elem_flat(x))
        if self.crash_at is not None and self.count == self.crash_at:
            raise SimCrash()


def _scale(*seqs):
    s = 1.0
    for seq in seqs:
        for a in seq:
            if a.size:
                with np.errstate(all='ignore'):
                    m = np.max(np.abs(a))
                if np.isfinite(m):
                    s = max(s, float(m))
    return s


def _maxdiff(a, b):
    if a.shape != b.shape:
        return float('inf')
    if a.size == 0:
        return 0.0
    with np.errstate(all='ignore'):
        d = np.abs(a - b)
        if not np.all(np.isfinite(d)):
            return float('inf')
        return float(np.max(d))


def _restart(inst, st, flavour):
    """What survives an interruption, by restart flavour."""
    if flavour == 'same':
        return st
    new = {}
    for k, v in st.items():
        if flavour == 'deepcopy':
            new[k] = v.copy()
        elif flavour == 'serialised':
            arrs = []
            parts = list(v.parts) if hasattr(v, 'parts') else [v]
            for p in parts:
                buf = io.BytesIO()
                np.save(buf, p.asarray())
                buf.seek(0)
                arrs.append(np.load(buf))
            if hasattr(v, 'parts'):
                new[k] = v.space.element(arrs)
            else:
                new[k] = v.space.element(arrs[0])
        else:
            raise HarnessError(flavour)
    return new


def _solver_call(prop, inst, fn, st, niter, cb, what):
    """Invoke a solver; SimCrash propagates, anything else odl raises on a
    valid instance is a violation of the property being checked."""
    try:
        fn(st, niter, cb)
    except SimCrash:
        raise
    except (Violation, Reject, HarnessError):
        raise
    except Exception as e:
        raise Violation(prop, '{}/raise/{}/{}/{}'.format(
            prop, inst.name, what, type(e).__name__),
            '{} raised {}: {}'.format(inst.name, type(e).__name__, str(e)[:300]))


# --------------------------------------------------------------------------
# generation
# --------------------------------------------------------------------------

def generate(prop, rng, tier):
    if prop == 'C12':
        from . import c12
        return c12.generate(rng, tier)
    w = rng.choices(['lockstep', 'resume', 'callbacks'], [4, 4, 2])[0]
    if w == 'lockstep':
        solver = rng.choice(LOCKSTEP)
    elif w == 'resume':
        solver = rng.choice(RESUME)
    else:
        solver = rng.choice(CALLBACKS)
    cfg = SI.gen_instance(rng, solver)
    plan = {'workload': w, 'config': cfg,
            'garbage': rng.choice(GARBAGE_FOR_SOLVERS),
            'global_seed': rng.getrandbits(31),
            # start values random draws never produce: the zero element, an
            # element with vanishing entries, integers (kinks of l1 terms)
            'x0pat': rng.choice(['rand'] * 7 + ['zero', 'zero_entries',
                                                'ints'])}
    if w == 'lockstep':
        plan['niter'] = rng.randint(2, 10 if solver != 'admm' else 25)
        if solver == 'adupdates' and cfg['random']:
            m = len(cfg['Ls'])
            plan['perms'] = [_rand_perm(rng, m) for _ in range(plan['niter'])]
        plan['ops'] = []
    elif w == 'resume':
        nseg = rng.randint(2, 4)
        segs = []
        for i in range(nseg):
            segs.append({'n': rng.randint(1, 15),
                         'end': rng.choice(['return', 'crash']),
                         'extra': rng.randint(1, 3),
                         'restart': rng.choice(['same', 'deepcopy',
                                                'serialised'])})
        plan['ops'] = segs
    else:
        plan['niter'] = rng.randint(1, 8)
        plan['ops'] = []
        # the recorder alone, or combined with odl's own callback objects
        plan['cbkind'] = rng.choice(['plain', 'plain', 'and_store',
                                     'store_and', 'shared_chain'])
        if solver in ('kaczmarz',):
            cfg['random'] = rng.random() < 0.5
    return plan


def _rand_perm(rng, m):
    p = list(range(m))
    mode = rng.random()
    if mode < 0.2:
        return p
    if mode < 0.4:
        return p[::-1]
    rng.shuffle(p)
    return p


def simplify(prop, plan):
    """Engine-specific shrink candidates."""
    if prop == 'C12':
        from . import c12
        for c in c12.simplify(plan):
            yield c
        return
    import copy
    if plan.get('garbage') not in ('huge', 'zero'):
        for kind in ('huge', 'zero'):
            c = copy.deepcopy(plan)
            c['garbage'] = kind
            yield c
    if plan.get('niter', 0) > 1:
        for n in (1, 2, plan['niter'] // 2, plan['niter'] - 1):
            if 1 <= n < plan['niter']:
                c = copy.deepcopy(plan)
                c['niter'] = n
                yield c
    for i, seg in enumerate(plan.get('ops', [])):
        if seg.get('n', 0) > 1:
            c = copy.deepcopy(plan)
            c['ops'][i]['n'] = max(1, seg['n'] // 2)
            yield c
        if seg.get('end') == 'crash':
            c = copy.deepcopy(plan)
            c['ops'][i]['end'] = 'return'
            yield c
        if seg.get('restart') != 'same':
            c = copy.deepcopy(plan)
            c['ops'][i]['restart'] = 'same'
            yield c
    if plan.get('perms'):
        c = copy.deepcopy(plan)
        c['perms'] = [sorted(p) for p in plan['perms']]
        if c['perms'] != plan['perms']:
            yield c


def fixup(prop, plan):
    if plan.get('workload') == 'resume' and not plan.get('ops'):
        return None
    return plan


# --------------------------------------------------------------------------
# execution
# --------------------------------------------------------------------------

def execute(prop, plan, ctx):
    if prop == 'C12':
        from . import c12
        return c12.execute(plan, ctx)
    seams.begin_run(plan.get('global_seed', 0))
    with seams.allocator('zero'):
        inst = SI.build(plan['config'])
    pat = plan.get('x0pat', 'rand')
    if pat != 'rand' and inst.name not in ('mlem', 'osmlem') and \
            'kl' not in str(getattr(inst, 'tags', '')):
        g0 = np_rng('x0pat', plan.get('global_seed', 0))
        for a in elem_arrays(inst.state0['x']):
            if pat == 'zero':
                a[...] = 0
            elif pat == 'ints':
                a[...] = np.round(2 * a)
            else:
                a[g0.random(a.shape) < 0.5] = 0
        if 'x_relax' in inst.state0:
            inst.state0['x_relax'].assign(inst.state0['x'])
        ctx.fired('x0-pattern-' + pat)
    w = plan['workload']
    if w == 'lockstep':
        _lockstep(plan, inst, ctx)
    elif w == 'resume':
        _resume(plan, inst, ctx)
    elif w == 'callbacks':
        _callbacks(plan, inst, ctx)
    else:
        raise HarnessError(w)


def _run_recorded(prop, inst, fn, niter, garbage, ctx, perms=None, what='opt',
                  count=True):
    st = inst.fresh_state()
    rec = Recorder()
    fired = {}
    with seams.allocator(garbage, salt=1, fired=fired):
        with seams.schedule(forced=perms, record=[]) as sch:
            _solver_call(prop, inst, fn, st, niter, rec, what)
            nperm = len(sch.drawn)
    if count:
        for k, v in fired.items():
            ctx.fired('alloc-' + k, v)
        if nperm:
            ctx.fired('forced-permutation', nperm)
    return st, rec


def _lockstep(plan, inst, ctx):
    prop = 'C11'
    N = plan['niter']
    perms = plan.get('perms')
    garbage = plan['garbage']
    name = inst.name
    # a configuration that the *reference* itself rejects is outside the
    # domain of "optimised matches reference" (counted, not judged)
    try:
        with seams.allocator('zero'):
            with seams.schedule(forced=perms):
                inst.run_ref(inst.fresh_state(), 1, None)
    except Exception as e:
        ctx.probe('reference-rejects-config:' + type(e).__name__)
        raise Reject('reference raises {}'.format(type(e).__name__))
    # optimised side under the planned garbage, and under benign zeros
    st_a, rec_a = _run_recorded(prop, inst, inst.run, N, garbage, ctx, perms)
    st_z, rec_z = _run_recorded(prop, inst, inst.run, N, 'zero', ctx, perms,
                                count=False)
    ctx.step(2 * N)
    expect = N * inst.cb_per_iter
    for rec, kind in ((rec_a, garbage), (rec_z, 'zero')):
        if rec.count != expect:
            raise Violation(prop, 'C11/callback-count/{}'.format(name),
                            '{}: {} callback invocations for niter={} '
                            '(expected {}) under {} garbage'.format(
                                name, rec.count, N, expect, kind))
    for k, (a, z) in enumerate(zip(rec_a.iters, rec_z.iters)):
        if a.tobytes() != z.tobytes():
            raise Violation(
                prop, 'C11/garbage-dependence/{}'.format(name),
                '{}: iterate {} depends on the contents of uninitialised '
                'memory ({} vs zero fill): max diff {:.3g}'.format(
                    name, k + 1, garbage, _maxdiff(a, z)),
                {'tags': inst.tags})
    # reference side
    ref_iters = []
    if name == 'admm':
        st_r, rec_r = _run_recorded(prop, inst, inst.run_ref, N, 'zero', ctx,
                                    perms, what='ref', count=False)
        ref_iters = rec_r.iters
        ctx.step(N)
    elif name == 'adupdates':
        # reference has no callback and hidden duals: re-run with niter=k
        per = inst.cb_per_iter
        for k in range(1, N + 1):
            st_r = inst.fresh_state()
            with seams.allocator('zero'):
                with seams.schedule(forced=perms):
                    _solver_call(prop, inst, inst.run_ref, st_r, k, None, 'ref')
            ref_iters.append(elem_flat(st_r['x']))
            ctx.step(k)
        if per != 1:
            # compare at outer-iteration boundaries only
            rec_a.iters = rec_a.iters[per - 1::per]
    elif name == 'doubleprox_dc':
        st_r = inst.fresh_state()
        for k in range(N):
            with seams.allocator('zero'):
                _solver_call(prop, inst, inst.run_ref, st_r, 1, None, 'ref')
            ref_iters.append(elem_flat(st_r['x']))
        ctx.step(N)
    if len(ref_iters) != len(rec_a.iters):
        raise HarnessError('lockstep length mismatch {} {}'.format(
            len(ref_iters), len(rec_a.iters)))
    scale = _scale(ref_iters, [elem_flat(inst.state0['x'])])
    amp = getattr(inst, 'amp', 1.0)
    eps = 2.2e-16
    changed = 0
    prev = elem_flat(inst.state0['x'])
    for k, (a, r) in enumerate(zip(rec_a.iters, ref_iters)):
        tol = max(1e-9, 64 * eps * amp ** (k + 1)) * scale
        if not np.all(np.isfinite(r)):
            raise Reject('reference itself non-finite')
        d = _maxdiff(a, r)
        if d > tol:
            raise Violation(
                prop, 'C11/lockstep/{}/{}'.format(name, _fam_key(inst)),
                '{}: optimised iterate {} differs from the _simple reference '
                'by {:.3g} (tol {:.3g}); instance {}'.format(
                    name, k + 1, d, tol, inst.tags), {'tags': inst.tags})
        if _maxdiff(r, prev) > 1e-12 * scale:
            changed += 1
        prev = r
        ctx.event('it', k + 1, a.tobytes().hex()[:32])
    if name == 'doubleprox_dc':
        d = _maxdiff(elem_flat(st_a['y']), elem_flat(st_r['y']))
        ys = _scale([elem_flat(st_r['y'])])
        if d > max(1e-9, 64 * eps * amp ** N) * ys:
            raise Violation(prop, 'C11/lockstep/doubleprox_dc-y/{}'.format(
                _fam_key(inst)),
                'doubleprox_dc: dual variable differs from reference by '
                '{:.3g}; instance {}'.format(d, inst.tags))
    if changed >= 2:
        ctx.covered('lockstep', name, inst.tags, garbage,
                    'perm' if perms else 'noperm')


def _linear_residual(inst, x):
    """Relative residual of the linear system a CG-type instance solves."""
    if inst.name == 'cg':
        r = inst.B(x) - inst.rhs
        return r.norm() / max(inst.rhs.norm(), 1e-300)
    r = inst.L.adjoint(inst.L(x) - inst.rhs)
    return r.norm() / max(inst.L.adjoint(inst.rhs).norm(), 1e-300)


def _fam_key(inst):
    """Site key for fingerprints: the functional families of the instance
    (the proximals the optimised solver applies in place)."""
    n = {'admm': 2, 'adupdates': 1, 'doubleprox_dc': 3}.get(inst.name, 1)
    return '/'.join(str(t) for t in inst.tags[:n])


def _resume(plan, inst, ctx):
    prop = 'C11'
    segs = plan['ops']
    if not segs:
        raise Reject('no segments')
    per = inst.cb_per_iter
    N = sum(s['n'] for s in segs)
    name = inst.name
    garbage = plan['garbage']
    # uninterrupted run (benign allocator)
    st_u, rec_u = _run_recorded(prop, inst, inst.run, N, 'zero', ctx,
                                count=False)
    ctx.step(N)
    if rec_u.count != N * per:
        raise Violation(prop, 'C11/callback-count/{}'.format(name),
                        '{}: {} callback invocations for niter={} (expected '
                        '{})'.format(name, rec_u.count, N, N * per))
    if hasattr(inst, 'run_plain'):
        # "running n+m at once" as a user without interest in resumption
        # does it: none of the resumption variables passed (seed z11: a
        # shortcut that is right for the solver's own x_relax and wrong for
        # a caller-supplied one makes segmented and uninterrupted runs agree
        # with each other when both pass the variables)
        st_p, rec_p = _run_recorded(prop, inst, inst.run_plain, N, 'zero',
                                    ctx, count=False)
        ctx.step(N)
        ctx.fired('plain-reference')
        scale_p = _scale(rec_u.iters, [elem_flat(inst.state0['x'])])
        d = _maxdiff(elem_flat(st_p['x']), elem_flat(st_u['x']))
        if d > 1e-12 * scale_p:
            raise Violation(
                prop, 'C11/resume-vars-change-iteration/{}'.format(name),
                '{}: {} iterations with the resumption variables passed in '
                '(at their initial values) differ from the same call without '
                'them by {:.3g}; instance {}'.format(name, N, d, inst.tags))
    # segmented run under garbage with crashes
    st = inst.fresh_state()
    rec_all = []
    fired = {}
    done = 0
    with seams.allocator(garbage, salt=2, fired=fired):
        for s in segs:
            n = s['n']
            inst.offset = done
            if s['end'] == 'crash':
                rec = Recorder(crash_at=n * per)
                try:
                    _solver_call(prop, inst, inst.run, st, n + s['extra'], rec,
                                 'segment')
                    raise Violation(prop, 'C11/crash-swallowed/{}'.format(name),
                                    '{}: exception raised by the callback at '
                                    'invocation {} did not propagate'.format(
                                        name, n * per))
                except SimCrash:
                    ctx.fired('crash')
                st = _restart(inst, st, s['restart'])
                ctx.fired('restart-' + s['restart'])
            else:
                rec = Recorder()
                _solver_call(prop, inst, inst.run, st, n, rec, 'segment')
                if rec.count != n * per:
                    raise Violation(
                        prop, 'C11/callback-count/{}'.format(name),
                        '{}: {} callback invocations for niter={} (expected '
                        '{})'.format(name, rec.count, n, n * per))
                st = _restart(inst, st, s['restart'])
                ctx.fired('restart-' + s['restart'])
            rec_all.extend(rec.iters)
            done += n
            ctx.step(n)
            ctx.event('seg', s['n'], s['end'], s['restart'],
                      elem_digest(st['x']))
    for k, v in fired.items():
        ctx.fired('alloc-' + k, v)
    scale = _scale(rec_u.iters, [elem_flat(inst.state0['x'])])
    tol = 1e-12 * scale
    # final state
    for key in inst.state_keys:
        d = _maxdiff(elem_flat(st[key]), elem_flat(st_u[key]))
        if d > tol:
            raise Violation(
                prop, 'C11/resume/{}/{}'.format(name, key),
                '{}: after segments {} the variable {!r} differs from the '
                'uninterrupted {}-iteration run by {:.3g} (tol {:.3g}); '
                'garbage {}, instance {}'.format(
                    name, [(s['n'], s['end'], s['restart']) for s in segs],
                    key, N, d, tol, garbage, inst.tags))
    # every iterate observed by the callbacks
    if len(rec_all) != len(rec_u.iters):
        raise Violation(prop, 'C11/callback-count/{}'.format(name),
                        '{}: segmented run showed {} iterates, uninterrupted '
                        '{}'.format(name, len(rec_all), len(rec_u.iters)))
    for k, (a, u) in enumerate(zip(rec_all, rec_u.iters)):
        d = _maxdiff(a, u)
        if d > tol:
            raise Violation(
                prop, 'C11/resume-iterates/{}'.format(name),
                '{}: callback iterate {} of the segmented run differs from '
                'the uninterrupted run by {:.3g}; segments {}, garbage {}, '
                'instance {}'.format(
                    name, k + 1, d,
                    [(s['n'], s['end'], s['restart']) for s in segs], garbage,
                    inst.tags))
    changed = sum(1 for a, b in zip(rec_u.iters[:-1], rec_u.iters[1:])
                  if _maxdiff(a, b) > 1e-12 * scale)
    if changed >= 2:
        shape = ','.join('{}{}'.format(s['end'][0], s['restart'][0])
                         for s in segs)
        ctx.covered('resume', name, inst.tags, shape, garbage)


def _callbacks(plan, inst, ctx):
    prop = 'C11'
    N = plan['niter']
    name = inst.name
    garbage = plan['garbage']
    perms = None
    if name == 'adupdates' and 'list' in inst.forms:
        # per-component step lists raise TypeError in adupdates *and* in
        # adupdates_simple (ndarray * ProductSpaceElement): the feature does
        # not exist in either implementation, nothing for C11 to compare
        ctx.probe('adupdates-list-stepsizes-unsupported')
        raise Reject('adupdates list step sizes')
    st = inst.fresh_state()
    rec = Recorder()
    rec.space = st['x'].space
    fired = {}
    cb, stored = rec, None
    kind = plan.get('cbkind', 'plain')
    if kind == 'shared_chain':
        # one composite callback shared by two runs, each run with its own
        # store attached by a further & (seed a11): building `base & store`
        # must not change `base`
        S_ = SI.odl().solvers
        ra, rb = Recorder(), Recorder()
        base = S_.CallbackApply(ra) & S_.CallbackApply(rb)
        s1, s2 = [], []
        dflt = plan.get('global_seed', 0) % 2 == 0
        if dflt:
            # stores built WITHOUT results= (seed e11: a default list that
            # is created once would be shared by all of them)
            st1, st2 = S_.CallbackStore(), S_.CallbackStore()
            s1, s2 = st1.results, st2.results
        else:
            st1 = S_.CallbackStore(results=s1)
            st2 = S_.CallbackStore(results=s2)
        cb1 = base & st1
        with seams.allocator(garbage, salt=3):
            with seams.schedule(record=[]):
                _solver_call(prop, inst, inst.run, inst.fresh_state(), N, cb1,
                             'callbacks')
        c1 = ra.count
        cb2 = base & st2
        with seams.allocator(garbage, salt=3):
            with seams.schedule(record=[]):
                _solver_call(prop, inst, inst.run, inst.fresh_state(), N, cb2,
                             'callbacks')
        ctx.step(2 * N)
        ctx.fired('callback-shared-composite')
        s1, s2 = st1.results, st2.results
        if not (len(s1) == c1 and len(s2) == ra.count - c1 and
                rb.count == ra.count):
            raise Violation(
                prop, 'C11/callback-composite-shared/{}'.format(name),
                '{}: a composite callback shared by two runs, each with its '
                'own CallbackStore attached by &: the stores hold {} and {} '
                'iterates, the shared callbacks saw {} and then {} more'.format(
                    name, len(s1), len(s2), c1, ra.count - c1))
        kind = 'plain'
    if kind != 'plain':
        S_ = SI.odl().solvers
        stored = []
        store = S_.CallbackStore(results=stored)
        cb = (S_.CallbackApply(rec) & store) if kind == 'and_store' else \
            (store & S_.CallbackApply(rec))
        ctx.fired('callback-composite')
    with seams.allocator(garbage, salt=3, fired=fired):
        with seams.schedule(record=[]) as sch:
            try:
                _solver_call(prop, inst, inst.run, st, N, cb, 'callbacks')
            except Violation as v:
                # 0/0 in a smooth solver whose iterate sits EXACTLY at a
                # stationary point (zero start value, operator that is
                # identically zero: thorough seed 26, nlcg): arithmetic
                # breakdown at the solution, counted like CG's, not a
                # statement about callbacks
                if 'ZeroDivisionError' in v.fingerprint and name in (
                        'bfgs', 'broyden', 'newton', 'nlcg', 'gauss_newton',
                        'steepest_descent') and hasattr(inst, 'f'):
                    try:
                        gn = float(inst.f.gradient(st['x']).norm())
                    except Exception:
                        gn = float('inf')
                    if gn <= 1e-12:
                        ctx.probe('breakdown-at-stationary-point:' + name)
                        raise Reject('breakdown at a stationary point')
                raise
            drawn = list(sch.drawn)
    if stored is not None:
        if len(stored) != rec.count or any(
                elem_flat(a).tobytes() != b.tobytes()
                for a, b in zip(stored, rec.iters)):
            raise Violation(prop, 'C11/callback-composite/{}'.format(name),
                            '{}: CallbackStore combined with another '
                            'callback stored {} iterates, the other callback '
                            'saw {} (or other values)'.format(
                                name, len(stored), rec.count))
    for k, v in fired.items():
        ctx.fired('alloc-' + k, v)
    if drawn:
        ctx.fired('global-rng-permutation', len(drawn))
    ctx.step(N)
    expect = N * inst.cb_per_iter
    if rec.count != expect:
        early_ok = False
        if name in ('cg', 'cg_normal') and rec.count < expect:
            # documented convergence exit (zero residual / zero step): fewer
            # callbacks are legitimate iff the iterate solves the system
            early_ok = _linear_residual(inst, st['x']) <= 1e-9
            if early_ok:
                ctx.probe('documented-early-exit:' + name)
        if name in ('bfgs', 'broyden', 'newton', 'nlcg', 'gauss_newton',
                    'steepest_descent') and rec.count < expect and \
                hasattr(inst, 'f'):
            # "we found an optimum": return at a stationary point (met with
            # the zero element as start value)
            try:
                gn = float(inst.f.gradient(st['x']).norm())
            except Exception:
                gn = float('inf')
            early_ok = gn <= 1e-12
            if early_ok:
                ctx.probe('documented-early-exit:' + name)
        if not early_ok:
            raise Violation(prop, 'C11/callback-count/{}'.format(name),
                            '{}: {} callback invocations for niter={} '
                            '(expected {}); instance {}'.format(
                                name, rec.count, N, expect, inst.tags))
        N = rec.count
        if N == 0:
            return
    if not rec.spaces_ok:
        raise Violation(prop, 'C11/callback-value/{}'.format(name),
                        '{}: callback was passed something that is not an '
                        'element of the iterate space'.format(name))
    last = rec.iters[-1]
    fin = elem_flat(st['x'])
    if last.tobytes() != fin.tobytes():
        raise Violation(prop, 'C11/callback-value/{}'.format(name),
                        '{}: the last iterate shown to the callback differs '
                        'from the final x by {:.3g}'.format(
                            name, _maxdiff(last, fin)))
    # every shown iterate must be what a run stopped there returns (value
    # shown == state of the iteration): replay with the same schedule
    for k in sorted(set([1, N // 2, N - 1])):
        if k < 1 or k >= N:
            continue
        st_k = inst.fresh_state()
        with seams.allocator(garbage, salt=3):
            with seams.schedule(forced=drawn if drawn else None):
                _solver_call(prop, inst, inst.run, st_k, k, None, 'callbacks')
        shown = rec.iters[k * inst.cb_per_iter - 1]
        xs = elem_flat(st_k['x'])
        scale = _scale([xs])
        d = _maxdiff(shown, xs)
        ctx.step(k)
        if not np.all(np.isfinite(xs)):
            continue
        if d > 1e-9 * scale:
            raise Violation(
                prop, 'C11/callback-value/{}'.format(name),
                '{}: iterate shown to callback invocation {} differs by '
                '{:.3g} from what a {}-iteration run returns; garbage {}, '
                'instance {}'.format(name, k * inst.cb_per_iter, d, k,
                                     garbage, inst.tags))
    distinct = len(set(a.tobytes() for a in rec.iters))
    if distinct >= 2:
        ctx.covered('callbacks', name, inst.tags, garbage)
    ctx.event('cb', name, rec.count, elem_digest(st['x']))
