"""C12 workloads of solversim: per-step invariants evaluated inside the
callback, fixed points at constructed solutions, bounded liveness after the
last injected fault."""
import copy

import numpy as np

from ..core import (Violation, Reject, SimCrash, HarnessError, elem_flat, assign_flat,
                    elem_digest, np_rng, derive)
from .. import seams, kkt
from .. import problems as P
from . import solver_instances as SI

GARBAGE = ('nan', 'huge', 'stale', 'zero')
WORKLOADS = ('cg', 'cgn', 'landweber', 'kaczmarz', 'steepest', 'power',
             'pdhg_lyap', 'fixed_point', 'liveness')
WEIGHTS = (2, 2, 2, 3, 2, 3, 3, 3, 4)
FP_SOLVERS = ('pdhg', 'douglas_rachford', 'forward_backward',
              'proximal_gradient', 'accelerated_proximal_gradient', 'admm')
LIVE_SOLVERS = FP_SOLVERS
MONO_REL = 1e-9
N_BOUND = 3000


def odl():
    import odl as _odl
    return _odl


# --------------------------------------------------------------------------
# generation
# --------------------------------------------------------------------------

def generate(rng, tier):
    w = rng.choices(WORKLOADS, WEIGHTS)[0]
    plan = {'workload': w, 'garbage': rng.choice(GARBAGE),
            'global_seed': rng.getrandbits(31), 'ops': []}
    u = lambda a, b: round(rng.uniform(a, b), 4)
    if w == 'cg':
        plan['config'] = SI.gen_instance(rng, 'cg')
        plan['niter'] = rng.randint(2, 12)
        if rng.random() < 0.3:
            # a restart next to the solution (seed z12): the start residual
            # is tiny relative to rhs but not zero
            plan['near'] = 10.0 ** rng.randint(-13, -3)
    elif w in ('cgn', 'landweber'):
        plan['config'] = SI.gen_instance(rng, 'cg_normal' if w == 'cgn'
                                         else 'landweber')
        plan['config']['projection'] = False
        plan['niter'] = rng.randint(2, 40)
    elif w == 'kaczmarz':
        cfg = SI.gen_instance(rng, 'kaczmarz')
        cfg['consistent'] = True
        cfg['callback_loop'] = 'inner'
        cfg['random'] = rng.random() < 0.6
        plan['config'] = cfg
        plan['niter'] = rng.randint(2, 15)
        if cfg['random']:
            m = len(cfg['Ls'])
            plan['perms'] = [_perm(rng, m) for _ in range(plan['niter'])]
    elif w == 'steepest':
        cfg = {'solver': 'steepest_bt', 'seed': rng.getrandbits(32),
               'fseed': rng.getrandbits(32)}
        cfg['X'] = P.gen_space(rng)
        cfg['L'] = P.gen_op(rng, cfg['X'])
        cfg['tau'] = rng.choice([0.5, 0.8, 0.3])
        cfg['discount'] = rng.choice([0.01, 0.1, 0.3])
        cfg['estimate_step'] = rng.random() < 0.5
        cfg['alpha'] = rng.choice([1.0, 10.0, 0.1])
        # projected variant on an instance where the projection provably
        # cannot raise the objective (separable quadratic, minimiser inside
        # the box), so that monotonicity is still owed
        cfg['proj'] = rng.random() < 0.35
        if rng.random() < 0.3:
            # an explicit small backtracking budget on a problem that is
            # stiff relative to it (seed d12): when the budget runs out the
            # line search documents a ValueError -- it must not hand back a
            # step it never tested
            cfg['max_num_iter'] = rng.choice([2, 3, 5, 8])
            cfg['stiff'] = rng.choice([1.0, 30.0, 300.0, 3000.0])
        plan['config'] = cfg
        plan['niter'] = rng.randint(2, 25)
    elif w == 'power':
        cfg = {'solver': 'power', 'seed': rng.getrandbits(32),
               'fseed': rng.getrandbits(32)}
        cfg['X'] = P.gen_space(rng)
        cfg['L'] = P.gen_op(rng, cfg['X'])
        cfg['selfadjoint'] = rng.random() < 0.4
        # self-adjoint branch: A^*A (positive) or a symmetric *indefinite*
        # matrix whose dominant eigenvalue may be negative
        cfg['indefinite'] = rng.random() < 0.5
        cfg['maxiter'] = rng.choice([2, 4, 10, 30, 100])
        cfg['xstart'] = rng.random() < 0.3
        plan['config'] = cfg
    elif w == 'pdhg_lyap':
        cfg = _gen_saddle(rng, 'pdhg')
        cfg['theta'] = 1.0
        cfg.pop('accel', None)        # constant steps for the Lyapunov check
        plan['config'] = cfg
        plan['niter'] = rng.randint(5, 60)
    elif w == 'fixed_point':
        solver = rng.choice(FP_SOLVERS)
        plan['config'] = _gen_saddle(rng, solver)
        plan['niter'] = rng.randint(1, 25)
    elif w == 'liveness':
        solver = rng.choice(LIVE_SOLVERS)
        cfg = _gen_saddle(rng, solver)
        # accelerated PDHG converges only like O(1/N) in the iterate (it is
        # legitimately far slower than the linear rate of the plain method on
        # these instances), so no fixed iteration bound is sound for it: it
        # takes part in the fixed-point workload only
        cfg.pop('accel', None)
        cfg.pop('accel_frac', None)
        cfg['default_steps'] = (solver in ('pdhg', 'douglas_rachford') and
                                rng.random() < 0.3)
        plan['config'] = cfg
        # fault schedule before the liveness clock starts
        faults = []
        for _ in range(rng.randint(0, 3)):
            faults.append({'after': rng.randint(1, 30),
                           'kind': rng.choice(['perturb', 'restart',
                                               'reseed', 'fresh']),
                           'size': rng.choice([1e-3, 0.1, 1.0, 3.0])})
        plan['ops'] = faults
    return plan


def _perm(rng, m):
    p = list(range(m))
    r = rng.random()
    if r < 0.2:
        return p
    if r < 0.4:
        return p[::-1]
    rng.shuffle(p)
    return p


def _gen_saddle(rng, solver):
    """Instance min f(x) + sum g_i(L_i x) [+ h(x)] whose functionals the KKT
    oracle models."""
    cfg = {'solver': solver, 'seed': rng.getrandbits(32),
           'fseed': rng.getrandbits(32), 'kkt': True}
    cfg['X'] = P.gen_space(rng)
    nops = 1
    if solver in ('douglas_rachford', 'forward_backward'):
        nops = rng.randint(1, 2)
        if solver == 'douglas_rachford' and rng.random() < 0.12:
            nops = 0       # supported: min f alone, empty operator list
    if solver in ('proximal_gradient', 'accelerated_proximal_gradient'):
        nops = 0
    cfg['Ls'] = [P.gen_op(rng, cfg['X']) for _ in range(nops)]
    cfg['tau_frac'] = round(rng.uniform(0.3, 0.95), 4)
    cfg['ratio'] = rng.choice([1.0, 0.25, 4.0])
    cfg['theta'] = 1.0
    if solver == 'pdhg' and rng.random() < 0.35:
        # accelerated PDHG (Chambolle-Pock Alg. 2): needs a strongly convex
        # f (gamma_primal) or a smooth g, i.e. strongly convex g* (gamma_dual)
        cfg['accel'] = rng.choice(['primal', 'dual'])
        cfg['accel_frac'] = round(rng.uniform(0.2, 1.0), 3)
    cfg['lam_relax'] = rng.choice([1.0, 1.0, 0.7, 1.5])
    cfg['sigma'] = rng.choice([0.5, 1.0, 2.0])
    if nops == 2:
        r = rng.random()
        if r < 0.3:
            # the same functional object at both positions of g (needs equal
            # range spaces: the second operator is drawn like the first)
            cfg['share_g'] = True
            if rng.random() < 0.6:
                cfg['Ls'][1] = dict(cfg['Ls'][0])
                cfg['Ls'][1]['seed'] = rng.getrandbits(32)
    cfg['x0pat'] = rng.choice(['rand'] * 7 + ['zero', 'zero_entries', 'ints'])
    if solver == 'douglas_rachford' and rng.random() < 0.3:
        # optional infimal-convolution terms l_i of douglas_rachford_pd: a
        # Huber term is passed as g_i = lam |.|_1, l_i = lam/(2 gamma) |.|^2
        cfg['use_l'] = True
    if solver in ('proximal_gradient', 'accelerated_proximal_gradient',
                  'forward_backward') and rng.random() < 0.4:
        cfg['h_comp'] = True
    return cfg


def simplify(plan):
    if plan.get('garbage') != 'zero':
        c = copy.deepcopy(plan)
        c['garbage'] = 'zero'
        yield c
    if plan.get('niter', 0) > 2:
        for n in (2, plan['niter'] // 2, plan['niter'] - 1):
            if 2 <= n < plan['niter']:
                c = copy.deepcopy(plan)
                c['niter'] = n
                yield c
    if plan.get('perms'):
        c = copy.deepcopy(plan)
        c['perms'] = [sorted(p) for p in plan['perms']]
        if c['perms'] != plan['perms']:
            yield c
    for i, op in enumerate(plan.get('ops', [])):
        if op.get('after', 0) > 1:
            c = copy.deepcopy(plan)
            c['ops'][i]['after'] = 1
            yield c


# --------------------------------------------------------------------------
# saddle-point problems built from library functionals
# --------------------------------------------------------------------------

class Saddle(object):
    """min f(x) + sum_i g_i(L_i x) + h(x), optionally with a constructed
    solution (x*, y_i*) obtained by adding linear terms to f and g_i."""

    NONSMOOTH = tuple(f for f in kkt.KKT_FAMILIES
                      if f not in ('quadpert_smooth',))

    def __init__(self, cfg, construct=False):
        import random
        o = odl()
        F = o.solvers
        self.cfg = cfg
        self.solver = cfg['solver']
        self.X = P.build_space(cfg['X'])
        self.Ls = [P.build_op(c, self.X) for c in cfg['Ls']]
        for i, L in enumerate(self.Ls):
            P.adjoint_filter(L, cfg['seed'] + i)
        self.norms = [P.op_norm_true(L) for L in self.Ls]
        if self.Ls and min(self.norms) == 0:
            raise Reject('zero operator')
        frng = random.Random(derive('c12f', cfg['fseed']))
        fams = kkt.KKT_FAMILIES
        accel = cfg.get('accel')
        if 'f' not in cfg:
            ffams = ('l2sq', 'l2sq_trans', 'quadpert', 'quadpert_smooth') \
                if accel == 'primal' else fams
            cfg['f'] = P.gen_func_for(frng, self.X, ffams)
        self.f = P.build_func(cfg['f'], self.X)
        self.gs = []
        share = bool(cfg.get('share_g')) and not construct
        for i, L in enumerate(self.Ls):
            key = 'g%d' % i
            if share and i > 0 and self.Ls[0].range == L.range and \
                    'g0' in cfg and cfg.get(key, cfg['g0']) == cfg['g0']:
                cfg[key] = cfg['g0']
                self.gs.append(self.gs[0])
                continue
            if key not in cfg:
                gfams = ('l2sq', 'l2sq_trans', 'huber', 'quadpert_smooth') \
                    if accel == 'dual' else fams
                if cfg.get('use_l') and i == 0:
                    gfams = ('huber',)
                cfg[key] = P.gen_func_for(frng, L.range, gfams)
                if accel == 'dual' and cfg[key]['fam'] in ('sepsum', 'groupl1',
                                                           'l2sq_p'):
                    raise Reject('dual acceleration needs a smooth g')
            self.gs.append(P.build_func(cfg[key], L.range))
        # douglas_rachford_pd(..., l=[...]): (g_i box l_i) with
        # g_i = lam |.|_1 and l_i = lam / (2 gamma) |.|_2^2 is lam * Huber_gamma,
        # which is what the harness models; IndicatorZero is the neutral l_i
        self.dr_g, self.dr_l = self.gs, None
        if cfg.get('use_l') and self.solver == 'douglas_rachford':
            g2, l2, any_l = [], [], False
            for i, (gi, L) in enumerate(zip(self.gs, self.Ls)):
                gc, Y = cfg['g%d' % i], L.range
                plain = cfg['X']['kind'] == 'rn' and \
                    not isinstance(Y, o.ProductSpace) and \
                    getattr(getattr(Y, 'weighting', None), 'const', None) == 1.0
                if gc['fam'] == 'huber' and plain:
                    lam_, gam_ = gc.get('lam', 1.0), gc.get('gamma', 0.5)
                    g2.append(lam_ * F.L1Norm(Y))
                    l2.append((lam_ / (2.0 * gam_)) * F.L2NormSquared(Y))
                    any_l = True
                else:
                    g2.append(gi)
                    l2.append(F.IndicatorZero(Y))
            if any_l:
                self.dr_g, self.dr_l = g2, l2
        self.h = None
        if self.solver in ('forward_backward', 'proximal_gradient',
                           'accelerated_proximal_gradient'):
            if 'h' not in cfg:
                cfg['h'] = P.gen_func(frng, kkt.KKT_SMOOTH)
            self.h = P.build_func(cfg['h'], self.X)
            if cfg.get('h_comp'):
                # the smooth term as a composition `h * Id` (same values,
                # gradient and Lipschitz constant, so the models stand), and
                # the objective looked at on the iterate object before each
                # solver call (seed e12: whatever a composition remembers
                # from an evaluation is stale once the solver has updated the
                # iterate in place)
                self.h = self.h * o.IdentityOperator(self.X)
        # harness models + precondition filters
        self.prob = kkt.Problem(self.X, cfg['f'], [cfg['g%d' % i]
                                                    for i in range(len(self.Ls))],
                                self.Ls, self.h)
        kkt.prox_filter(self.f, self.prob.fm, self.X, cfg['seed'])
        for i, (g, gm, L) in enumerate(zip(self.gs, self.prob.gms, self.Ls)):
            kkt.prox_filter(g, gm, L.range, cfg['seed'] + 7 + i)
            kkt.prox_filter(g.convex_conj, _ConjModel(gm), L.range,
                            cfg['seed'] + 13 + i)
        gg = np_rng('c12x0', cfg['seed'])
        self.x0 = P.rand_elem(self.X, gg)
        pat = cfg.get('x0pat', 'rand')
        if pat != 'rand' and 'kl' not in str(cfg['f']):
            # start values random draws never produce (kinks of l1 terms)
            from ..core import elem_arrays
            gp = np_rng('c12x0pat', cfg['seed'])
            for a in elem_arrays(self.x0):
                if pat == 'zero':
                    a[...] = 0
                elif pat == 'ints':
                    a[...] = np.round(2 * a)
                else:
                    a[gp.random(a.shape) < 0.5] = 0
        if cfg['f']['fam'] == 'kl' or (cfg['f']['fam'] == 'sepsum'):
            # start inside the (open) domain of f
            self.x0 = P.unflatten(self.X, np.abs(elem_flat(self.x0)) + 0.1) \
                if cfg['f']['fam'] == 'kl' else self.x0
        self.scale = 1.0
        self.xstar = None
        if construct:
            self._construct(gg)
        self._steps()
        self.tags = (P.func_tag(cfg['f']),
                     ','.join(P.func_tag(cfg['g%d' % i])
                              for i in range(len(self.Ls))),
                     P.func_tag(cfg['h']) if self.h is not None else '-',
                     ','.join(P.op_tag(c) for c in cfg['Ls']),
                     cfg['X']['kind']) + (
            ('accel-' + cfg['accel'],) if cfg.get('accel') else ()) + (
            ('l-terms',) if self.dr_l is not None else ()) + (
            ('shared-g',) if len(self.gs) > 1 and self.gs[0] is self.gs[1]
            else ())

    # -- constructed solution: add linear terms ---------------------------
    def _construct(self, gg):
        """Choose x*, pick u in df(x*), v_i in dg_i(L_i x*), and add the linear
        term c = -(u + grad h(x*) + sum L_i^* v_i) to f.  Then
        0 in d(f + <c,.>)(x*) + grad h(x*) + sum L_i^* dg_i(L_i x*), with dual
        solutions y_i* = v_i."""
        o = odl()
        F = o.solvers
        zero_duals = self.solver in ('douglas_rachford', 'forward_backward',
                                     'admm')
        xs = P.rand_elem(self.X, gg, 0.7)
        xf = elem_flat(xs).astype(float)
        if self.solver in ('admm', 'douglas_rachford'):
            # admm_linearized starts z = u = 0: (x*, z* = L x*, u*) is a
            # fixed point of the *exposed* state only if L x* = 0 and u* = 0.
            # douglas_rachford_pd iterates a governing variable whose fixed
            # point is not the solution itself; with hidden duals started at
            # zero the solution is a fixed point of what the caller controls
            # only if additionally L_i x* = 0 (then z2 = p2 = 0).
            xf = np.zeros_like(xf)
        else:
            # put x* on kinks of f for a random subset of coordinates
            kin = self.prob.fm.kinks(xf)
            snap = (gg.uniform(0, 1, len(xf)) < 0.4) & np.isfinite(kin)
            xf = np.where(snap, kin, xf)
        if self.solver not in ('admm', 'douglas_rachford'):
            xf = self.prob.fm.interior(xf)
        xf = self.prob.fm.proj_dom(xf)
        if not self.prob.fm.safe(xf):
            raise Reject('x* on the boundary of an open domain')
        if self.solver in ('admm', 'douglas_rachford') and np.linalg.norm(xf) > 0:
            raise Reject('0 not in dom f')
        xs = P.unflatten(self.X, xf)
        S = self.prob.fm.subdiff(xf, 1e-12)
        u = _pick(S, gg)
        tot = u.copy()
        self.ystars = []
        for L, gm, M, MT in zip(self.Ls, self.prob.gms, self.prob.Ms,
                                self.prob.MTs):
            y = M @ xf
            if np.linalg.norm(gm.proj_dom(y) - y) > 1e-12 or not gm.safe(y):
                raise Reject('L x* outside (or on the boundary of) dom g: no '
                             'constructed solution')
            Sg = gm.subdiff(y, 1e-12)
            if zero_duals:
                z = np.zeros(len(y))
                if np.linalg.norm(kkt._proj_with_rays(Sg, z)) > 0:
                    raise Reject('optimal dual cannot be zero for this g')
                v = z
            else:
                v = _pick(Sg, gg)
            self.ystars.append(P.unflatten(L.range, v))
            tot += MT @ v
        if self.h is not None:
            tot += elem_flat(self.h.gradient(xs)).astype(float)
        c = P.unflatten(self.X, -tot)
        self.f = F.FunctionalQuadraticPerturb(self.f, quadratic_coeff=0,
                                              linear_term=c)
        self.lin = -tot
        self.xstar = xs

    def residual(self, x, eps):
        r = self.prob.residual(x, eps) if self.xstar is None else \
            self._residual_lin(x, eps)
        return r

    def _residual_lin(self, x, eps):
        # same oracle with the linear term added as a constant
        prob = self.prob
        xf = elem_flat(x).astype(float)
        if not np.all(np.isfinite(xf)):
            return float('inf')
        px = prob.fm.proj_dom(xf)
        feas = np.sqrt(np.sum(prob.wX * (xf - px) ** 2))
        sets = [prob.fm.subdiff(px, eps)]
        mats = [np.eye(len(xf))]
        for gm, M, MT, wY in zip(prob.gms, prob.Ms, prob.MTs, prob.wYs):
            y = M @ xf
            py = gm.proj_dom(y)
            feas += np.sqrt(np.sum(wY * (y - py) ** 2))
            sets.append(gm.subdiff(py, eps))
            mats.append(MT)
        const = self.lin.copy()
        if self.h is not None:
            const = const + elem_flat(self.h.gradient(x)).astype(float)
        return kkt.min_norm_sum(const, mats, sets, prob.wX) + float(feas)

    # -- admissible steps --------------------------------------------------
    def _steps(self):
        cfg = self.cfg
        s = self.solver
        if s == 'pdhg':
            n = self.norms[0]
            self.tau = cfg['tau_frac'] / n * cfg['ratio']
            self.sigma = cfg['tau_frac'] / n / cfg['ratio']
            self.accel_kw = {}
            if cfg.get('accel') == 'primal':
                mu = P.strong_convexity(cfg['f'])
                if not mu > 0:
                    raise Reject('f not strongly convex')
                self.accel_kw = {'gamma_primal': cfg['accel_frac'] * mu}
            elif cfg.get('accel') == 'dual':
                lip = P.true_lipschitz(cfg['g0'])
                if not (np.isfinite(lip) and lip > 0):
                    raise Reject('g not smooth')
                self.accel_kw = {'gamma_dual': cfg['accel_frac'] / lip}
        elif s == 'admm':
            # balanced parameters: sigma ~ ||L||, so that tau ~ 1/||L|| is of
            # the size an independent PDHG would use (an admissible but tiny
            # tau makes ADMM legitimately slow; the liveness bound is only
            # meaningful for comparable step sizes)
            n = self.norms[0]
            self.sigma = cfg['sigma'] * n
            self.tau = cfg['tau_frac'] * self.sigma / n ** 2
        elif s == 'douglas_rachford':
            m = len(self.Ls)
            # (no operator: any tau > 0 is admissible)
            self.tau = 1.0 / sum(self.norms) if m else \
                float(cfg.get('sigma', 1.0))
            self.sigma = [cfg['tau_frac'] * 4.0 / (m * self.tau * n ** 2)
                          for n in self.norms]
        elif s == 'forward_backward':
            beta = P.true_lipschitz(self.cfg['h'])
            s2 = sum(n ** 2 for n in self.norms)
            base = cfg['tau_frac'] * 0.7 / np.sqrt(s2)
            if beta > 0:
                base = min(base, cfg['tau_frac'] * 0.5 / beta)
            self.tau = base
            self.sigma = [base] * len(self.Ls)
        elif s in ('proximal_gradient', 'accelerated_proximal_gradient'):
            lip = P.true_lipschitz(self.cfg['h'])
            if not np.isfinite(lip) or lip <= 0:
                raise Reject('no Lipschitz constant')
            self.gamma = cfg['tau_frac'] / lip

    # -- run the real solver ----------------------------------------------
    def run(self, x, niter, callback=None, state=None, default_steps=False):
        S = odl().solvers
        s = self.solver
        if self.cfg.get('h_comp') and self.h is not None:
            self.h(x)       # a user printing the objective at the start
        if s == 'pdhg':
            kw = {}
            if state is not None:
                kw = {'x_relax': state['x_relax'], 'y': state['y']}
            if default_steps:
                S.pdhg(x, self.f, self.gs[0], self.Ls[0], niter,
                       callback=callback, **kw)
            else:
                kw.update(self.accel_kw)
                S.pdhg(x, self.f, self.gs[0], self.Ls[0], niter, tau=self.tau,
                       sigma=self.sigma, theta=self.cfg['theta'],
                       callback=callback, **kw)
        elif s == 'admm':
            S.admm_linearized(x, self.f, self.gs[0], self.Ls[0], self.tau,
                              self.sigma, niter, callback=callback)
        elif s == 'douglas_rachford':
            kw = {} if self.dr_l is None else {'l': self.dr_l}
            if default_steps:
                S.douglas_rachford_pd(x, self.f, self.dr_g, self.Ls, niter,
                                      callback=callback, **kw)
            else:
                S.douglas_rachford_pd(x, self.f, self.dr_g, self.Ls, niter,
                                      tau=self.tau, sigma=self.sigma,
                                      lam=self.cfg['lam_relax'],
                                      callback=callback, **kw)
        elif s == 'forward_backward':
            S.forward_backward_pd(x, self.f, self.gs, self.Ls, self.h,
                                  self.tau, self.sigma, niter,
                                  callback=callback)
        elif s == 'proximal_gradient':
            S.proximal_gradient(x, self.f, self.h, self.gamma, niter,
                                callback=callback)
        elif s == 'accelerated_proximal_gradient':
            S.accelerated_proximal_gradient(x, self.f, self.h, self.gamma,
                                            niter, callback=callback)
        else:
            raise HarnessError(s)


class _ConjModel(object):
    """Sub-differential model of g^* from the model of g, used only by the
    prox filter: q = prox_{s g*}(z) <=> (z - q)/s in dg*(q) <=> q in dg((z-q)/s).
    We check the latter."""

    def __init__(self, gm):
        self.gm = gm
        self.cfg = {'fam': gm.cfg['fam'] + '^*'}

    def proj_dom(self, q):
        return q

    def subdiff(self, q, eps):
        return _ConjSet(self.gm, q)


class _ConjSet(object):
    def __init__(self, gm, q):
        self.gm, self.q = gm, q
        self.ray = []

    def project(self, v):
        # v must satisfy q in dg(v): return v if so, else something far away
        pv = self.gm.proj_dom(v)
        if np.linalg.norm(pv - v) > 1e-7 * (1 + np.linalg.norm(v)):
            return v + 1.0
        S = self.gm.subdiff(pv, 1e-9)
        pq = kkt._proj_with_rays(S, self.q)
        if np.linalg.norm(pq - self.q) <= 1e-7 * (1 + np.linalg.norm(self.q)):
            return v
        return v + 1.0


def _pick(S, gg):
    """A point of the block set (finite representative)."""
    lo = np.where(np.isfinite(S.lo), S.lo, np.where(np.isfinite(S.hi),
                                                     S.hi - 1.0, -1.0))
    hi = np.where(np.isfinite(S.hi), S.hi, lo + 1.0)
    t = gg.uniform(0, 1, len(lo))
    # bias towards faces (degenerate multipliers) sometimes
    t = np.where(gg.uniform(0, 1, len(lo)) < 0.25, np.round(t), t)
    v = lo + t * (hi - lo)
    for idx, c, r in S.balls:
        d = gg.standard_normal(len(idx))
        d *= r * gg.uniform(0, 1) / max(np.linalg.norm(d), 1e-300)
        v[idx] = c + d
    for idx, u in getattr(S, 'ray', []):
        v[idx] = gg.uniform(0, 1) * u
    return v


# --------------------------------------------------------------------------
# execution
# --------------------------------------------------------------------------

def execute(plan, ctx):
    seams.begin_run(plan.get('global_seed', 0))
    w = plan['workload']
    fn = {'cg': _cg, 'cgn': _residual_mono, 'landweber': _residual_mono,
          'kaczmarz': _kaczmarz, 'steepest': _steepest, 'power': _power,
          'pdhg_lyap': _pdhg_lyap, 'fixed_point': _fixed_point,
          'liveness': _liveness}[w]
    fn(plan, ctx)


def _call(name, what, fn):
    try:
        return fn()
    except (SimCrash, Violation, Reject, HarnessError):
        raise
    except Exception as e:
        raise Violation('C12', 'C12/raise/{}/{}/{}'.format(
            name, what, type(e).__name__),
            '{} raised {}: {}'.format(name, type(e).__name__, str(e)[:300]))


def _mono_check(seq, name, what, floor, tags, ctx):
    """seq must be non-increasing up to (1+1e-9) and an absolute floor."""
    for k in range(1, len(seq)):
        if not np.isfinite(seq[k]):
            raise Violation('C12', 'C12/{}/{}'.format(what, name),
                            '{}: {} is not finite at step {}'.format(
                                name, what, k))
        if seq[k] > seq[k - 1] * (1 + MONO_REL) + floor:
            raise Violation(
                'C12', 'C12/{}/{}'.format(what, name),
                '{}: {} increased at step {}: {:.17g} -> {:.17g} '
                '(floor {:.3g}); instance {}'.format(
                    name, what, k, seq[k - 1], seq[k], floor, tags))
    if len(seq) >= 2 and seq[0] > 0 and abs(seq[-1] - seq[0]) > 0.01 * seq[0]:
        return True
    return False


def _cg(plan, ctx):
    with seams.allocator('zero'):
        inst = SI.build(plan['config'])
    Bm = P.op_matrix(inst.B)
    w = P.gram_diag(inst.X)
    rhs = elem_flat(inst.rhs)
    xs = np.linalg.solve(Bm, rhs)
    ev = np.linalg.eigvalsh((Bm + Bm.T) / 2)
    if ev[0] <= 0:
        raise Reject('B not SPD')
    cond = ev[-1] / ev[0]
    N = plan['niter']
    st = inst.fresh_state()
    if plan.get('near'):
        # x0 = x* + near * |x*| * (random direction), written in place
        d0 = elem_flat(st['x']) - xs
        nd = np.linalg.norm(d0)
        if nd == 0:
            raise Reject('start is the solution')
        assign_flat(st['x'], xs + plan['near'] * max(np.linalg.norm(xs), 1.0)
                      * d0 / nd)
        ctx.fired('x0-near-solution')

    def energy(x):
        e = elem_flat(x) - xs
        return float(np.sum(w * e * (Bm @ e)))

    seq = [energy(st['x'])]
    fired = {}
    with seams.allocator(plan['garbage'], salt=5, fired=fired):
        try:
            _call('cg', 'run', lambda: inst.run(
                st, N, lambda x: seq.append(energy(x))))
        except Violation as v:
            lvl = seq[0]
            if plan.get('near'):
                # a start next to the solution: rounding level is relative
                # to |x*|, not to the (already tiny) start error
                lvl += float(np.sum(w * xs * (Bm @ xs)))
            if '/raise/' in v.fingerprint and len(seq) > 1 and \
                    seq[-1] <= 1e-24 * cond ** 2 * lvl:
                # 0/0 breakdown after convergence to rounding level
                ctx.probe('breakdown-after-convergence:cg')
            else:
                raise
    _count(ctx, fired)
    ctx.step(N)
    if len(seq) == 1 and N >= 1:
        # returned without a single step: only legitimate when there is
        # nothing left to reduce, i.e. the residual of the start value (as
        # the harness computes it from the matrix) is at rounding level
        x0v = elem_flat(st['x'])
        res = np.linalg.norm(rhs - Bm @ x0v)
        lvl = 1e-12 * (np.linalg.norm(Bm, 2) * np.linalg.norm(x0v) +
                       np.linalg.norm(rhs))
        ctx.probe('cg-returned-without-step')
        if res > lvl:
            raise Violation(
                'C12', 'C12/cg-no-step',
                'cg returned without performing a step although the start '
                'residual {:.3g} is {:.3g} x rounding level (energy error '
                '{:.3g} left as it is; cond {:.3g}); instance {}'.format(
                    res, res / lvl * 1e-12 / 2.2e-16, seq[0], cond,
                    inst.tags))
    floor = 1e-24 * cond ** 2 * max(seq[0], 1e-300) + 1e-300
    if plan.get('near'):
        # the error is already small relative to the solution: rounding level
        # is relative to |x*|, not to the start error
        floor += 1e-24 * cond ** 2 * float(np.sum(w * xs * (Bm @ xs)))
    nontrivial = _mono_check(seq, 'cg', 'energy-error', floor, inst.tags, ctx)
    n = len(xs)
    if cond <= 1e3 and len(seq) - 1 >= n and len(seq) - 1 == N and \
            not plan.get('near'):
        # exact termination holds in exact arithmetic; with clustered
        # eigenvalues rounding leaves up to ~1e-6 of the initial error (seen:
        # 1.3e-6 at cond 932), a wrong recurrence leaves O(1)
        if seq[n] > 1e-6 * seq[0] + 1e-300:
            raise Violation('C12', 'C12/cg-exactness',
                            'cg: energy error after dim={} steps is {:.3g} of '
                            'initial (cond {:.3g}); instance {}'.format(
                                n, np.sqrt(seq[n] / seq[0]), cond, inst.tags))
        ctx.probe('cg-exact-after-dim')
    if nontrivial:
        ctx.covered('cg', 'energy', inst.tags, _bucket(cond), plan['garbage'])
    ctx.event('cg', N, elem_digest(st['x']))


def _bucket(c):
    return 'cond<1e1' if c < 10 else 'cond<1e3' if c < 1e3 else 'cond>=1e3'


def _count(ctx, fired):
    for k, v in fired.items():
        ctx.fired('alloc-' + k, v)


def _residual_mono(plan, ctx):
    with seams.allocator('zero'):
        inst = SI.build(plan['config'])
    name = inst.name
    N = plan['niter']
    st = inst.fresh_state()

    def res(x):
        r = inst.L(x) - inst.rhs
        if name == 'cg_normal' and live[0]:
            # CGN is only monotone while it has not converged: once the
            # normal-equation residual is at rounding level the recurrences
            # are dominated by cancellation (more steps than dimensions)
            g = float(inst.L.adjoint(r).norm())
            if g0[0] is None:
                g0[0] = max(g, 1e-300)
            if g <= 1e-7 * g0[0]:
                live[0] = False
        return float(r.norm())

    live, g0 = [True], [None]
    seq = [res(st['x'])]
    fired = {}

    def cb(x):
        v = res(x)
        if live[0]:
            seq.append(v)

    with seams.allocator(plan['garbage'], salt=5, fired=fired):
        try:
            _call(name, 'run', lambda: inst.run(st, N, cb))
        except Violation as v:
            if '/raise/' in v.fingerprint and not live[0]:
                # arithmetic breakdown (0/0) many steps *after* convergence
                # to rounding level: not what the property is about
                ctx.probe('breakdown-after-convergence:' + name)
            else:
                raise
    _count(ctx, fired)
    ctx.step(N)
    floor = 1e-12 * max(seq[0], 1e-300)
    if _mono_check(seq, name, 'residual', floor, inst.tags, ctx):
        ctx.covered(name, 'residual', inst.tags, plan['garbage'],
                    round(plan['config']['omega_frac'], 1)
                    if name == 'landweber' else '-')
    ctx.event(name, N, elem_digest(st['x']))


def _kaczmarz(plan, ctx):
    cfg = plan['config']
    with seams.allocator('zero'):
        inst = SI.build(cfg)
    N = plan['niter']
    st = inst.fresh_state()
    xt = elem_flat(inst.xtrue)
    w = P.gram_diag(inst.X)
    if inst.projection is not None:
        lo, hi = float(xt.min()) - 1.0, float(xt.max()) + 1.0
        inst.projection = SI._box_projection(lo, hi)

    def dist(x):
        e = elem_flat(x) - xt
        return float(np.sqrt(np.sum(w * e * e)))

    seq = [dist(st['x'])]
    fired = {}
    with seams.allocator(plan['garbage'], salt=5, fired=fired):
        with seams.schedule(forced=plan.get('perms'), record=[]) as sch:
            _call('kaczmarz', 'run', lambda: inst.run(
                st, N, lambda x: seq.append(dist(x))))
            nperm = len(sch.drawn)
    _count(ctx, fired)
    if nperm:
        ctx.fired('forced-permutation', nperm)
    ctx.step(N * len(inst.Ls))
    if len(seq) - 1 != N * len(inst.Ls):
        raise Violation('C12', 'C12/kaczmarz-steps',
                        'kaczmarz: {} inner steps observed for {} sweeps of {} '
                        'blocks'.format(len(seq) - 1, N, len(inst.Ls)))
    floor = 1e-12 * max(seq[0], 1e-300)
    if _mono_check(seq, 'kaczmarz', 'distance-to-solution', floor, inst.tags,
                   ctx):
        ctx.covered('kaczmarz', 'distance', inst.tags,
                    'perm' if plan.get('perms') else 'fixed', plan['garbage'])
    ctx.event('kaczmarz', N, elem_digest(st['x']))


def _steepest(plan, ctx):
    o = odl()
    F = o.solvers
    cfg = plan['config']
    with seams.allocator('zero'):
        X = P.build_space(cfg['X'])
        A = P.build_op(cfg['L'], X)
        P.adjoint_filter(A, cfg['seed'])
        g = np_rng('x0', cfg['seed'])
        projection = None
        if cfg.get('proj'):
            # f(x) = sum_i (a_i x_i - b_i)^2 w_i + 0.05 x_i^2 w_i is separable
            # with minimiser c_i = a_i b_i / (a_i^2 + 0.05); clipping to a box
            # that contains c moves every coordinate towards c_i or leaves it
            a = P.rand_elem(X, g, positive=True)
            A = o.MultiplyOperator(a, domain=X, range=X)
            b = P.rand_elem(X, g, 2.0)
            af, bf = elem_flat(a).astype(float), elem_flat(b).astype(float)
            c = af * bf / (af ** 2 + 0.05)
            lo = float(c.min() - g.uniform(0.0, 0.3))
            hi = float(c.max() + g.uniform(0.0, 0.3))
            projection = SI._box_projection(lo, hi)
        else:
            b = P.rand_elem(A.range, g)
        f = (F.L2NormSquared(A.range).translated(b) * A +
             0.05 * F.L2NormSquared(X))
        lskw = {}
        if cfg.get('max_num_iter'):
            f = cfg.get('stiff', 1.0) * f
            lskw['max_num_iter'] = cfg['max_num_iter']
            ctx.fired('linesearch-budget-given')
        x = P.rand_elem(X, g, 3.0 if cfg.get('proj') else 1.0)
        ls = F.BacktrackingLineSearch(f, tau=cfg['tau'],
                                      discount=cfg['discount'],
                                      alpha=cfg['alpha'],
                                      estimate_step=cfg['estimate_step'],
                                      **lskw)
    N = plan['niter']
    seq = [float(f(x))]
    fired = {}
    tags = (P.op_tag(cfg['L']) if not cfg.get('proj') else 'diag+box',
            cfg['X']['kind'], cfg['tau'], cfg['discount'],
            cfg['estimate_step'])
    try:
        with seams.allocator(plan['garbage'], salt=5, fired=fired):
            F.steepest_descent(f, x, line_search=ls, maxiter=N, tol=0,
                               projection=projection,
                               callback=lambda xx: seq.append(float(f(xx))))
    except (ValueError, AssertionError) as e:
        # the line search documents a ValueError when no decrease can be
        # found; legitimate only at (numerical) stationarity -- or when the
        # caller's own backtracking budget is exhausted
        gn = f.gradient(x).norm()
        if cfg.get('max_num_iter') and 'exceeded maximum' in str(e):
            ctx.probe('linesearch-budget-exhausted')
        elif gn > 1e-6 * (1 + abs(seq[0])):
            raise Violation('C12', 'C12/raise/steepest_descent/linesearch',
                            'line search failed away from stationarity '
                            '(|grad|={:.3g}): {}'.format(gn, str(e)[:200]))
        ctx.probe('linesearch-exhausted-at-stationarity')
    except Exception as e:
        raise Violation('C12', 'C12/raise/steepest_descent/{}'.format(
            type(e).__name__), str(e)[:300])
    _count(ctx, fired)
    ctx.step(len(seq) - 1)
    floor = 1e-13 * max(abs(seq[0]), 1e-300)
    if _mono_check(seq, 'steepest_descent', 'objective', floor, tags, ctx):
        ctx.covered('steepest', 'objective', tags, plan['garbage'])
    ctx.event('steepest', N, elem_digest(x))


def _power(plan, ctx):
    o = odl()
    cfg = plan['config']
    with seams.allocator('zero'):
        X = P.build_space(cfg['X'])
        A = P.build_op(cfg['L'], X)
        P.adjoint_filter(A, cfg['seed'])
        if cfg['selfadjoint']:
            if cfg.get('indefinite') and cfg['X']['kind'] == 'rn':
                n = X.size
                gm = np_rng('sym', cfg['seed'])
                M = gm.standard_normal((n, n))
                M = (M + M.T) / 2 - 0.5 * np.eye(n) * abs(M).sum() / n
                B = o.MatrixOperator(M, domain=X, range=X)
            else:
                B = A.adjoint * A
            # a genuinely self-adjoint operator object (adjoint is self)
            op = _SelfAdjoint(B)
        else:
            op = A
        true = P.op_norm_true(op)
        g = np_rng('x0', cfg['seed'])
        xstart = P.rand_elem(op.domain, g) if cfg['xstart'] else None
    fired = {}
    tags = (P.op_tag(cfg['L']), cfg['X']['kind'],
            'self' if cfg['selfadjoint'] else 'normal', cfg['maxiter'])
    from odl.operator.oputils import power_method_opnorm
    try:
        with seams.allocator(plan['garbage'], salt=5, fired=fired):
            est = power_method_opnorm(op, xstart=xstart,
                                      maxiter=cfg['maxiter'])
    except ValueError as e:
        if 'reached' in str(e) or 'nonzero' in str(e):
            ctx.probe('power-method-documented-failure')
            raise Reject('power method documented failure')
        raise Violation('C12', 'C12/raise/power_method/ValueError', str(e)[:300])
    except Exception as e:
        raise Violation('C12', 'C12/raise/power_method/{}'.format(
            type(e).__name__), str(e)[:300])
    _count(ctx, fired)
    ctx.fired('global-rng-start' if xstart is None else 'given-start')
    ctx.step(cfg['maxiter'])
    if not np.isfinite(est) or est > true * (1 + 1e-10) + 1e-300:
        raise Violation('C12', 'C12/power-method-overestimate/{}'.format(tags[2]),
                        'power_method_opnorm = {:.17g} exceeds the true norm '
                        '{:.17g}; instance {}, garbage {}'.format(
                            est, true, tags, plan['garbage']))
    if est < true * (1 - 0.01):
        ctx.covered('power', tags, plan['garbage'])
    else:
        ctx.covered('power', tags[1:], 'tight')
    ctx.event('power', repr(float(est)))


def _SelfAdjoint(B):
    o = odl()

    class SelfAdjointOp(o.Operator):
        """Problem data (stub): wraps A^*A so that `adjoint is self`."""

        def __init__(self):
            super(SelfAdjointOp, self).__init__(B.domain, B.range, linear=True)

        def _call(self, x, out):
            B(x, out=out)

        @property
        def adjoint(self):
            return self

    return SelfAdjointOp()


def _pdhg_lyap(plan, ctx):
    cfg = plan['config']
    with seams.allocator('zero'):
        sp = Saddle(cfg, construct=True)
    L = sp.Ls[0]
    N = plan['niter']
    x = sp.x0.copy()
    state = {'x_relax': x.copy(), 'y': L.range.zero()}
    xs, ys = sp.xstar, sp.ystars[0]
    tau, sigma = sp.tau, sp.sigma
    prev = [x.copy()]
    seq = []

    def cb(xk1):
        xk = prev[0]
        y = state['y']
        dx = xk - xs
        dy = y - ys
        val = (dx.norm() ** 2 / (2 * tau) + dy.norm() ** 2 / (2 * sigma) -
               L(dx).inner(dy))
        seq.append(float(val))
        prev[0] = xk1.copy()

    fired = {}
    with seams.allocator(plan['garbage'], salt=5, fired=fired):
        _call('pdhg', 'run', lambda: sp.run(x, N, cb, state=state))
    _count(ctx, fired)
    ctx.step(N)
    floor = 1e-12 * max(seq[0], 1e-300) + 1e-26
    if _mono_check(seq, 'pdhg', 'he-yuan-distance', floor, sp.tags, ctx):
        ctx.covered('pdhg_lyap', sp.tags, plan['garbage'], cfg['ratio'])
    ctx.event('pdhg_lyap', N, elem_digest(x))


def _fixed_point(plan, ctx):
    cfg = plan['config']
    with seams.allocator('zero'):
        sp = Saddle(cfg, construct=True)
    s = sp.solver
    N = plan['niter']
    x = sp.xstar.copy()
    state = None
    if s == 'pdhg':
        state = {'x_relax': x.copy(), 'y': sp.ystars[0].copy()}
    # sanity of the construction itself (harness self-check, not odl)
    r0 = sp.residual(x, 1e-9)
    scale = 1.0 + float(sp.xstar.norm())
    if r0 > 1e-8 * scale:
        # the harness's own construction / QP solve did not close: never a
        # verdict about odl.  Counted (a non-zero count is a harness defect
        # to look at), the run is abandoned.
        ctx.probe('HARNESS-construction-selfcheck-failed')
        raise Reject('constructed solution has KKT residual {:.3g} '
                     '({})'.format(r0, sp.tags))
    fired = {}
    moved = [0.0]

    def cb(xk):
        moved[0] = max(moved[0], float((xk - sp.xstar).norm()))

    with seams.allocator(plan['garbage'], salt=5, fired=fired):
        _call(s, 'run', lambda: sp.run(x, N, cb, state=state))
    _count(ctx, fired)
    ctx.step(N)
    d = max(moved[0], float((x - sp.xstar).norm()))
    if not d <= 1e-9 * scale:
        raise Violation('C12', 'C12/fixed-point/{}'.format(s),
                        '{}: started at a solution (KKT residual {:.2g}) the '
                        'iterate moved by {:.3g} within {} iterations; '
                        'instance {}, garbage {}'.format(
                            s, r0, d, N, sp.tags, plan['garbage']))
    ctx.covered('fixed_point', s, sp.tags, plan['garbage'])
    ctx.event('fixed', s, N, elem_digest(x))


def _textbook_pdhg(sp, x0, niter):
    """Independent 20-line NumPy PDHG (stub, easy-instance filter only): runs
    on flattened coordinates with odl's proximals used as black boxes would
    defeat independence, so it uses the stacked operator and *odl-free*
    proximal formulas where available; otherwise the instance is not in the
    liveness class."""
    raise NotImplementedError


def _liveness(plan, ctx):
    cfg = plan['config']
    with seams.allocator('zero'):
        sp = Saddle(cfg, construct=False)
    s = sp.solver
    default_steps = bool(cfg.get('default_steps')) and bool(cfg.get('Ls'))
    eps = 1e-7
    x = sp.x0.copy()
    r_start = sp.residual(x, eps)
    if not np.isfinite(r_start) or r_start < 1e-6:
        raise Reject('start already (almost) optimal')
    # ---- easy-instance filter: depends on the instance alone ------------
    ok, xe = _easy_filter(sp, eps, r_start)
    if not ok:
        ctx.probe('liveness-instance-filtered')
        raise Reject('not an easy instance')
    # ---- faults, then the liveness clock ---------------------------------
    g = np_rng('faults', cfg['seed'])
    fired = {}
    state = None
    if s == 'pdhg':
        state = {'x_relax': x.copy(), 'y': sp.Ls[0].range.zero()}
    with seams.allocator(plan['garbage'], salt=5, fired=fired):
        for op in plan['ops']:
            _admissible_defaults(sp, default_steps, ctx)
            _call(s, 'pre-fault', lambda: sp.run(
                x, op['after'], None, state=state, default_steps=default_steps))
            ctx.step(op['after'])
            k = op['kind']
            if k == 'perturb':
                x += op['size'] * P.rand_elem(sp.X, g)
                _refeasible(sp, x)
            elif k == 'fresh':
                x.assign(P.rand_elem(sp.X, g, op['size']))
                _refeasible(sp, x)
            elif k == 'restart':
                if state is not None:     # lost dual / relaxation variables
                    state = {'x_relax': x.copy(), 'y': sp.Ls[0].range.zero()}
            elif k == 'reseed':
                np.random.seed(int(g.integers(0, 2 ** 31)))
            ctx.fired('fault-' + k)
        r_fault = sp.residual(x, eps)
        target = max(1e-3 * max(r_start, r_fault), 1e-6)
        x_fault = x.copy()
        state_fault = None if state is None else \
            {k_: v_.copy() for k_, v_ in state.items()}
        if plan['ops']:
            # the easy-instance filter must also hold from where the faults
            # left the iterate (a restart far away can be legitimately slow)
            ok2, xe2 = _easy_filter(sp, eps, max(r_start, r_fault), x)
            if ok2:
                xe = xe2
            if not ok2:
                ctx.probe('liveness-post-fault-state-filtered')
                raise Reject('not easy from the post-fault state')
        _admissible_defaults(sp, default_steps, ctx)
        # one uninterrupted call of N_BOUND iterations; the callback evaluates
        # the residual at checkpoints and stops the run once the target is met
        checkpoints = set([25, 50, 100, 200, 400, 700, 1000, 1500, 2000, 2500,
                           N_BOUND])
        box = {'k': 0, 'r': r_fault, 'x': None}

        def cb(xk):
            box['k'] += 1
            if box['k'] in checkpoints:
                box['r'] = sp.residual(xk, eps)
                if box['r'] <= target:
                    box['x'] = xk.copy()
                    raise SimCrash()

        if r_fault > target:
            try:
                _call(s, 'run', lambda: sp.run(x, N_BOUND, cb, state=state,
                                               default_steps=default_steps))
            except SimCrash:
                pass
        done = box['k']
        r = box['r']
        ctx.step(done)
    _count(ctx, fired)
    if not r <= target:
        # At a kink the sub-gradient residual stays O(1) until the iterate
        # hits the kink exactly, and Douglas-Rachford-type methods can sit
        # next to it for ~1/distance iterations while the dual variable
        # drifts to the boundary of its set (active-set identification; seen
        # with 7055 iterations at distance 7e-5).  An iterate that is within
        # 1e-3 of a point whose sub-gradient inclusion has been verified (the
        # reference solve) therefore gets ten times the budget, in one
        # uninterrupted run from the same post-fault state.
        # (Thorough seed 24 added two more legitimately slow cases: PDHG with
        # admissible but badly balanced steps started 1e-3 next to a kink,
        # and forward-backward with a step limited by a large Lipschitz
        # constant creeping through an active-set change; both arrive within
        # 10 000 iterations.  The second stage is therefore granted to every
        # run that misses the first bound; distances are measured against
        # the larger of the post-fault and the original start distance.)
        d_0 = max(float(np.linalg.norm(elem_flat(x_fault) - elem_flat(xe))),
                  float(np.linalg.norm(elem_flat(sp.x0) - elem_flat(xe))))
        d_end = float(np.linalg.norm(elem_flat(x) - elem_flat(xe)))
        if np.isfinite(d_end):
            ctx.probe('liveness-second-stage')
            x = x_fault.copy()
            box = {'k': 0, 'r': r_fault, 'x': None}
            checkpoints = set(range(1000, 10 * N_BOUND + 1, 1000))
            with seams.allocator(plan['garbage'], salt=6):
                try:
                    _call(s, 'run', lambda: sp.run(
                        x, 10 * N_BOUND, cb, state=state_fault,
                        default_steps=default_steps))
                except SimCrash:
                    pass
            done, r = box['k'], box['r']
            ctx.step(done)
            d_end = float(np.linalg.norm(elem_flat(x) - elem_flat(xe)))
            if not r <= target and d_end <= 1e-5 * d_0:
                ctx.probe('liveness-accepted-at-1e-5-of-verified-kkt-point')
                r = target
    if not r <= target:
        site = s
        if s == 'forward_backward':
            site = s + '/' + _classify_fb(sp)
        raise Violation(
            'C12', 'C12/liveness/{}'.format(site),
            '{}: eps-KKT residual {:.3g} after {} iterations following the '
            'last fault (start {:.3g}, after faults {:.3g}, target {:.3g}); '
            'an independent PDHG reaches 1e-8 of start within {} iterations; '
            'instance {}, faults {}, garbage {}'.format(
                s, r, done, r_start, r_fault, target, N_BOUND // 10, sp.tags,
                [(o['after'], o['kind']) for o in plan['ops']],
                plan['garbage']))
    ctx.covered('liveness', s, sp.tags,
                ','.join(o['kind'] for o in plan['ops']) or 'nofault',
                'default' if default_steps else 'given')
    ctx.event('live', s, done, repr(float(r)))


def _admissible_defaults(sp, default_steps, ctx):
    """Default step sizes come from power_method_opnorm with a start drawn
    from the process RNG (seam S3).  The property is conditional on
    admissible steps, so peek at what the solver is about to compute (same
    RNG state, restored afterwards) and leave the run if the estimate makes
    them inadmissible."""
    if not default_steps:
        return
    stt = np.random.get_state()
    try:
        if sp.solver == 'pdhg':
            from odl.solvers.nonsmooth.primal_dual_hybrid_gradient import (
                pdhg_stepsize)
            tau, sigma = pdhg_stepsize(sp.Ls[0])
            ok = tau * sigma * sp.norms[0] ** 2 < 1
        else:
            from odl.solvers.nonsmooth.douglas_rachford import (
                douglas_rachford_pd_stepsize)
            tau, sigma = douglas_rachford_pd_stepsize(sp.Ls)
            ok = tau * sum(si * n ** 2 for si, n in zip(sigma, sp.norms)) < 4
    finally:
        np.random.set_state(stt)
    ctx.fired('global-rng-default-steps')
    if not ok:
        ctx.probe('default-steps-inadmissible')
        raise Reject('default steps inadmissible for this RNG state')


def _classify_fb(sp):
    """Does odl's forward_backward_pd coincide with the un-extrapolated
    iteration (dual step at x^{k+1} instead of 2x^{k+1} - x^k) on this
    instance?  That is the recorded finding; anything else is a different
    violation and gets a different fingerprint."""
    try:
        # several horizons: on some instances both reference iterations
        # coincide for the first dozens of steps (saturated dual variable)
        x0 = elem_flat(sp.x0).astype(float)
        deg_ok = ext_ok = True
        deg_off = ext_off = False
        for n in (25, 200, 1000):
            x = sp.x0.copy()
            with seams.allocator('zero'):
                sp.run(x, n)
            got = elem_flat(x).astype(float)
            deg = _fb_reference(sp, x0, n, extrapolate=False)
            ext = _fb_reference(sp, x0, n, extrapolate=True)
            if deg is None:
                return 'unclassified'
            sc = 1.0 + np.max(np.abs(deg))
            d_deg = np.max(np.abs(got - deg)) / sc
            d_ext = np.max(np.abs(got - ext)) / sc
            deg_ok = deg_ok and d_deg <= 1e-8
            ext_ok = ext_ok and d_ext <= 1e-8
            deg_off = deg_off or d_deg > 1e-6
            ext_off = ext_off or d_ext > 1e-6
        if deg_ok and ext_off:
            return 'matches-unextrapolated-iteration'
        if ext_ok and deg_off:
            return 'matches-textbook-iteration'
        if ext_ok and deg_ok:
            return 'matches-both-iterations'
        return 'matches-neither'
    except Exception:
        return 'unclassified'


def _refeasible(sp, x):
    """After a perturbation fault the restart point must be a legal start
    (inside dom f for solvers that never leave it on their own)."""
    xf = sp.prob.fm.proj_dom(elem_flat(x).astype(float))
    x.assign(P.unflatten(sp.X, xf))


def _easy_filter(sp, eps, r_start, x_from=None):
    """Independent reference solve: textbook PDHG on the stacked operator in
    NumPy, with proximals from the harness models (closed forms below).
    Returns (True, x) when the eps-KKT residual falls below 1e-8 * start
    within N_BOUND/10 iterations."""
    ref = _NumpyPDHG(sp)
    if not ref.ok:
        return False, None
    x = ref.solve(elem_flat(sp.x0 if x_from is None else x_from).astype(float),
                  N_BOUND // 10)
    xe = P.unflatten(sp.X, x)
    r = sp.residual(xe, eps)
    return (r <= max(1e-8 * r_start, 1e-12)), xe


class _NumpyPDHG(object):
    """min f(x) + sum g_i(L_i x) + h(x) by Condat-Vu / PDHG in NumPy on
    flattened *Euclidean* coordinates (weights folded in), using closed-form
    proximals of the harness models.  Stub: used only to decide whether an
    instance is easy."""

    def __init__(self, sp):
        self.sp = sp
        self.ok = True
        prob = sp.prob
        self.wX = prob.wX
        self.Ms = prob.Ms
        self.wYs = prob.wYs
        # Euclidean-ised operators: K_i = sqrt(wY) M_i / sqrt(wX)
        self.Ks = [np.sqrt(wY)[:, None] * M / np.sqrt(self.wX)[None, :]
                   for M, wY in zip(self.Ms, self.wYs)]
        self.K = np.vstack(self.Ks) if self.Ks else np.zeros((0, len(self.wX)))
        self.nK = np.linalg.norm(self.K, 2) if self.K.size else 0.0
        self.beta = 0.0
        if sp.h is not None:
            self.beta = float(P.true_lipschitz(sp.cfg['h']))
        try:
            self.pf = _euclid_prox(prob.fm, self.wX)
            self.pgs = [_euclid_prox(gm, wY)
                        for gm, wY in zip(prob.gms, self.wYs)]
        except Reject:
            self.ok = False

    def solve(self, x_flat, niter):
        sp = self.sp
        sw = np.sqrt(self.wX)
        x = sw * x_flat
        nK = max(self.nK, 1e-12)
        tau = 0.9 / (nK + self.beta)
        sigma = 0.9 / nK if self.K.size else 1.0
        # condition: 1/tau - sigma nK^2 >= beta/2
        y = np.zeros(self.K.shape[0])
        xb = x.copy()
        sizes = [K.shape[0] for K in self.Ks]
        offs = np.cumsum([0] + sizes)
        for _ in range(niter):
            # dual
            z = y + sigma * (self.K @ xb)
            yn = np.empty_like(z)
            for k, pg in enumerate(self.pgs):
                zk = z[offs[k]:offs[k + 1]]
                # Moreau: prox_{s g*}(z) = z - s prox_{g/s}(z/s)
                yn[offs[k]:offs[k + 1]] = zk - sigma * pg(zk / sigma, 1.0 / sigma)
            y = yn
            grad = np.zeros_like(x)
            if sp.h is not None:
                xe = P.unflatten(sp.X, x / sw)
                grad = sw * elem_flat(sp.h.gradient(xe)).astype(float)
            xn = self.pf(x - tau * (self.K.T @ y + grad), tau)
            xb = 2 * xn - x
            x = xn
        return x / sw


def _fb_reference(sp, x_flat, niter, extrapolate):
    """Forward-backward primal-dual iteration in NumPy on Euclidean-ised
    coordinates with odl's step sizes.  extrapolate=False is the degenerate
    (Arrow-Hurwicz) variant that the recorded finding about
    forward_backward_pd corresponds to.  Used only to *classify* a liveness
    failure, never to judge it."""
    ref = _NumpyPDHG(sp)
    if not ref.ok:
        return None
    sw = np.sqrt(ref.wX)
    x = sw * x_flat
    vs = [np.zeros(K.shape[0]) for K in ref.Ks]
    tau, sigmas = sp.tau, sp.sigma
    for _ in range(niter):
        xe = P.unflatten(sp.X, x / sw)
        grad = sw * elem_flat(sp.h.gradient(xe)).astype(float)
        tot = grad + sum(K.T @ v for K, v in zip(ref.Ks, vs))
        xn = ref.pf(x - tau * tot, tau)
        y = 2 * xn - x if extrapolate else xn
        for i, (K, pg, sg) in enumerate(zip(ref.Ks, ref.pgs, sigmas)):
            z = vs[i] + sg * (K @ y)
            vs[i] = z - sg * pg(z / sg, 1.0 / sg)
        x = xn
    return x / sw


def _euclid_prox(model, w):
    """Closed-form prox of the modelled functional in Euclidean-ised
    coordinates xi = sqrt(w) x (so that the weighted norm is the 2-norm).
    Returns prox(v, s) = argmin f(xi/sqrt(w)) + |xi - v|^2/(2s)."""
    fam = model.cfg['fam']
    sw = np.sqrt(w)
    lam = model.lam
    b = None if model.b is None else sw * model.b

    def soft(v, t):
        return np.sign(v) * np.maximum(np.abs(v) - t, 0.0)

    if fam in ('l1', 'scaled_l1', 'l1_trans'):
        # f = |lam| sum w |x_i - b_i| = |lam| sum sw |xi_i - b_i|
        c = abs(lam)
        if b is None:
            return lambda v, s: soft(v, s * c * sw)
        return lambda v, s: b + soft(v - b, s * c * sw)
    if fam in ('l2', 'l2_trans'):
        def p(v, s):
            z = v if b is None else v - b
            n = np.linalg.norm(z)
            r = np.zeros_like(z) if n <= s * lam else z * (1 - s * lam / n)
            return r if b is None else b + r
        return p
    if fam in ('l2sq', 'l2sq_trans', 'l2sq_p'):
        if b is None:
            return lambda v, s: v / (1 + 2 * lam * s)
        return lambda v, s: (v + 2 * lam * s * b) / (1 + 2 * lam * s)
    if fam in ('zero', 'const'):
        return lambda v, s: v
    if fam == 'box':
        lo, hi = model.lo, model.hi
        return lambda v, s: np.clip(v, lo * sw, hi * sw)
    if fam == 'nonneg':
        return lambda v, s: np.maximum(v, 0.0)
    if fam == 'linfball':
        return lambda v, s: np.clip(v, -sw, sw)
    if fam == 'l2ball':
        def p(v, s):
            n = np.linalg.norm(v)
            return v if n <= 1 else v / n
        return p
    if fam == 'huber':
        gam = model.cfg.get('gamma', 0.5)
        # f = lam sum w h(x_i); in xi: lam sum w h(xi_i/sw_i)
        def p(v, s):
            x = v / sw
            # prox of t -> lam*h(t) with step s (weights cancel per entry)
            small = np.abs(x) <= gam + s * lam
            return sw * np.where(small, x / (1 + s * lam / gam),
                                 x - s * lam * np.sign(x))
        return p
    if fam == 'kl':
        gpr = model.prior

        def p(v, s):
            # per entry (weights cancel): x - xv + s lam (1 - g/x) = 0
            xv = v / sw
            t = s * lam
            return sw * 0.5 * ((xv - t) + np.sqrt((xv - t) ** 2 + 4 * t * gpr))
        return p
    if fam == 'quadpert':
        # |x|_1 + lam |x|^2 + <c, x>  (all weighted):
        c = sw * model.c
        return lambda v, s: soft((v - s * c) / (1 + 2 * lam * s),
                                 s * sw / (1 + 2 * lam * s))
    if fam == 'quadpert_smooth':
        c = sw * model.c
        return lambda v, s: (v - s * c) / (1 + 2 * (1 + lam) * s)
    if fam == 'groupl1':
        d, m = model.d, model.m
        w0 = sw[0]

        def p(v, s):
            V = v.reshape(d, m)
            n = np.sqrt(np.sum(V * V, axis=0))
            t = s * abs(lam) * w0
            fac = np.where(n > t, 1 - t / np.maximum(n, 1e-300), 0.0)
            return (V * fac).ravel()
        return p
    if fam == 'sepsum':
        subs, pos = [], 0
        for mdl in model.parts:
            subs.append((pos, pos + mdl.n, _euclid_prox(mdl, w[pos:pos + mdl.n])))
            pos += mdl.n

        def p(v, s):
            out = np.empty_like(v)
            for a, bnd, pr in subs:
                out[a:bnd] = pr(v[a:bnd], s)
            return out
        return p
    raise Reject('no euclid prox for ' + fam)
