"""callsim -- simulation engine for C03 (operator call protocol) and C10
(aliased calls of proximals and solver building blocks).

System: one long-lived operator instance built from a recipe, a pool of
domain elements, a history of calls (out-of-place, in-place into a
garbage-filled out, aliased, rejected) with allocator garbage and scratch
scribbling injected.  Oracle: the stateless replica (a freshly built instance
evaluated once on a copy under a benign allocator).
"""
import copy

import numpy as np

from ..core import (Violation, Reject, HarnessError, np_rng, elem_snapshot,
                    snapshot_equal_bits, fill_elem, fill_garbage, elem_arrays,
                    elem_digest, guarded_layout)
from .. import seams
from .. import recipes as R
from .. import spaces as SP

GARBAGE = ('nan', 'huge', 'stale', 'inf', 'denormal', 'zero')

TIERS = {
    'C03': {'quick': {'runs': 96000, 'budget_s': 100, 'chunk': 100},
            'thorough': {'runs': 3000000, 'budget_s': 1800, 'chunk': 500}},
    'C10': {'quick': {'runs': 96000, 'budget_s': 100, 'chunk': 100},
            'thorough': {'runs': 3000000, 'budget_s': 1800, 'chunk': 500}},
}

RULE = {
    'C03': ('Each run builds one operator instance from the recipe table '
            '(one seeded recipe per concrete Operator/Functional class, plus '
            '.adjoint/.inverse/.derivative/.gradient/.proximal derivations '
            'and expression nodes), a pool of 3 domain elements, and a '
            'history of 4-9 calls drawn from {out-of-place, in-place into a '
            'garbage-filled out, rejected input, rejected out, scratch '
            'scribble}. Distinct by (operator class, recipe/options '
            'signature, call path, garbage kind); non-trivial when the '
            'result is not constant over the pool.'),
    'C10': ('Each run builds one proximal operator (every factory x options, '
            'every Functional.proximal / convex_conj.proximal incl. derived '
            'functionals) or one of the listed solver building blocks and '
            'executes a history of aliased calls P(y, out=y), mixed with '
            'plain calls, under injected garbage. Distinct by (operator '
            'class, recipe/options signature, garbage kind); non-trivial '
            'when P(x) != x.'),
}

COMPONENTS = {
    'real': ['odl operators, functionals, proximal factories, spaces (from '
             '/repo working tree)', 'numpy', 'scipy', 'pyfftw', 'pywt',
             'scikit-image (RayTransform back-end)'],
    'stub': ['allocator fill wrapper (numpy.empty/empty_like from odl.* '
             'frames)', 'garbage written into caller-owned out buffers and '
             'caller-supplied scratch', 'recipe table (problem data)',
             'stateless replica = second real instance from the same recipe'],
}

ASSUMPTIONS = {
    'C03': ['tolerance 1e4*eps*(|y|+|x|+1) between in-place and out-of-place '
            '(legitimately different code paths); bitwise between garbage '
            'kinds except FFTW-backed transforms',
            'classes without a recipe are listed under uncovered_classes',
            'NotImplementedError at call time is counted as rejected config',
            'a clean batch is evidence, not proof'],
    'C10': ['P(x) (non-aliased) is the reference; its own correctness is C07',
            'covered set: recipes flagged c10 in odlsim/recipes.py',
            'a clean batch is evidence, not proof'],
}

NOBIT_RECIPES = ('DFT', 'FT')        # FFTW plan choice may differ per call
# finite differences divide rounding noise of the functional by h ~ 1.5e-8,
# and the last bit of a BLAS norm depends on the 16-byte alignment of the data
# (an element wrapping a view vs. the replica's fresh copy)
TOL_SCALE = {'NumericalGradient': 1e8}


# --------------------------------------------------------------------------
# generation
# --------------------------------------------------------------------------

def generate(prop, rng, tier):
    c10 = prop == 'C10'
    cfg = R.gen_recipe(rng, c10_only=c10)
    plan = {'op': cfg, 'garbage': rng.sample(GARBAGE[:5], 2),
            'global_seed': rng.getrandbits(31), 'xseed': rng.getrandbits(32)}
    # complete the cfg (lazy options) by one build
    import random
    orng = random.Random(rng.getrandbits(64))
    try:
        with np.errstate(all='ignore'):
            R.build(cfg, orng)
    except Reject as e:
        plan['ops'] = []
        plan['dead'] = str(e)[:60]
        return plan
    ops = []
    n = rng.randint(4, 9)
    # memory layout of the pool elements and of the out arguments: mostly
    # contiguous, sometimes Fortran-ordered or a strided view
    plan['xlay'] = [rng.choice(LAYOUTS) for _ in range(3)]
    # value patterns random draws never produce: points where all components
    # vanish, the zero element, ties, integers, a vanishing component
    plan['xpat'] = [rng.choice(XPATTERNS) for _ in range(3)]
    for _ in range(n):
        if c10:
            t = rng.choices(['alias', 'oop', 'ip', 'scribble'],
                            [6, 1, 2, 1])[0]
        else:
            t = rng.choices(['oop', 'ip', 'reject_in', 'reject_out',
                             'scribble', 'raw', 'deriv_mutate'],
                            [3, 5, 1, 1, 1, 1, 0.6])[0]
        op = {'t': t, 'i': rng.randint(0, 2)}
        if t == 'oop' and not c10:
            # the caller reuses the element it got back as a work buffer
            op['scribble_result'] = rng.random() < 0.3
        if t == 'deriv_mutate':
            op['j'] = rng.randint(0, 2)
        if t in ('ip', 'scribble', 'reject_out'):
            op['fill'] = rng.choice(GARBAGE)
        if t in ('ip', 'alias'):
            op['olay'] = rng.choice(LAYOUTS)
            if t == 'ip' and rng.random() < 0.08:
                op['olay'] = 'interleaved'
        if t == 'alias':
            op['j'] = rng.randint(0, 1)
            # a second aliased call on the same instance, on what the first
            # one left in y (seeds b10, b12: state kept from the first call)
            op['twice'] = rng.random() < 0.35
        if t == 'reject_in':
            # (an element of a space that differs only in weighting, dtype
            # ... CAN be converted to a domain element and is accepted: near
            # misses are for `out` only)
            op['kind'] = rng.choice(['wrong_space', 'string', 'wrong_shape'])
        if t == 'raw':
            # input that is not an element but can be converted to one
            op['kind'] = rng.choice(['ndarray', 'ndarray_f', 'list',
                                     'other_dtype'])
            op['path'] = rng.choice(['oop', 'ip'])
            op['fill'] = rng.choice(GARBAGE)
        if t == 'reject_out':
            op['kind'] = rng.choice(['wrong_space', 'ndarray', 'near_miss',
                                     'near_miss'])
            op['variant'] = rng.randrange(8)
        ops.append(op)
    if rng.random() < 0.12:
        ops.append({'t': 'mutate_held', 'i': rng.randint(0, 2),
                    'k': rng.randrange(8), 'fill': rng.choice(GARBAGE)})
    elif c10 and rng.random() < 0.2:
        # aliased call on an element the operator itself holds (translation,
        # data term, prior ...): consumes the operator, hence last
        ops.append({'t': 'alias_held', 'i': 0, 'k': rng.randrange(8)})
    plan['ops'] = ops
    return plan


LAYOUTS = ['C'] * 5 + ['F', 'strided', 'strided']
XPATTERNS = ['rand'] * 6 + ['zero_points', 'zero_points', 'all_zero', 'ties',
                            'ints', 'one_comp_zero', 'halves', 'unit_norm',
                            'real_embedded']


def _pattern(x, pat, g):
    """Impose a value pattern on a pool element (in place)."""
    if pat == 'rand' or not SP.is_elem(x):
        return
    arrs = elem_arrays(x)
    if not arrs or any(a.dtype.kind not in 'fc' for a in arrs):
        return
    if pat == 'all_zero':
        for a in arrs:
            a[...] = 0
    elif pat == 'one_comp_zero':
        arrs[int(g.integers(0, len(arrs)))][...] = 0
    elif pat == 'ties':
        for a in arrs:
            a[...] = np.sign(np.round(a.real)) if a.dtype.kind == 'f' else \
                np.sign(np.round(a.real)) + 1j * np.sign(np.round(a.imag))
    elif pat == 'ints':
        for a in arrs:
            a[...] = np.round(2 * a)
    elif pat == 'real_embedded':
        # real data in a complex space (imaginary part exactly zero); purely
        # imaginary for every second element
        for q, a in enumerate(arrs):
            if a.dtype.kind == 'c':
                if q % 2 == 0:
                    a.imag[...] = 0
                else:
                    a.real[...] = 0
    elif pat == 'halves':
        # multiples of 0.5: entries exactly at the thresholds lam * sigma the
        # recipes use (0.5, 1, 2, 2.5)
        for a in arrs:
            a[...] = np.round(2 * a) / 2
    elif pat == 'unit_norm':
        # exactly on the unit sphere of the space (boundary of the balls)
        try:
            nrm = float(x.norm())
        except Exception:
            nrm = 0.0
        if nrm > 0 and np.isfinite(nrm):
            for a in arrs:
                a /= nrm
    elif pat == 'zero_points':
        # the same positions in every component of equal shape
        shp = arrs[0].shape
        mask = g.random(shp) < 0.4
        if mask.size and not mask.any():
            mask.flat[0] = True
        for a in arrs:
            if a.shape == shp:
                a[mask] = 0
            else:
                a[g.random(a.shape) < 0.4] = 0


_relayout = SP.relayout


def simplify(prop, plan):
    if any(p_ != 'rand' for p_ in plan.get('xpat', [])):
        c = copy.deepcopy(plan)
        c['xpat'] = ['rand'] * len(plan['xpat'])
        yield c
    if any(l != 'C' for l in plan.get('xlay', [])):
        c = copy.deepcopy(plan)
        c['xlay'] = ['C'] * len(plan['xlay'])
        yield c
    for i, op in enumerate(plan.get('ops', [])):
        if op.get('olay', 'C') != 'C':
            c = copy.deepcopy(plan)
            c['ops'][i]['olay'] = 'C'
            yield c
    for i, op in enumerate(plan.get('ops', [])):
        if op.get('fill') not in (None, 'huge', 'zero'):
            c = copy.deepcopy(plan)
            c['ops'][i]['fill'] = 'huge'
            yield c
    if plan.get('garbage') != ['zero', 'huge']:
        c = copy.deepcopy(plan)
        c['garbage'] = ['zero', 'huge']
        yield c
    if plan['op'].get('derive'):
        c = copy.deepcopy(plan)
        c['op']['derive'] = c['op']['derive'][:-1]
        yield c


# --------------------------------------------------------------------------
# execution
# --------------------------------------------------------------------------

def site_of(op, cfg):
    parts = [cfg['recipe']]
    for k in ('F', 'wrap', 'factory', 'inner', 'name', 'node', 'form', 'mode',
              'A', 'B', 'treestr'):
        if k in cfg:
            parts.append(str(cfg[k]))
    if cfg['recipe'] in ('DFT', 'FT'):
        parts.append('real' if np.dtype(cfg['dtype']).kind == 'f' else 'complex')
        parts.append('hc' if cfg.get('halfcomplex') else 'full')
    return type(op).__name__ + '/' + ':'.join(parts)


def opt_sig(cfg):
    keys = sorted(k for k in cfg if k not in ('seed', 'recipe', 'S', 'R', 'D',
                                              'deltas', 'shape', 'tree',
                                              'c10_only'))
    return ','.join('{}={}'.format(k, cfg[k]) for k in keys)[:120]


class Run(object):
    def __init__(self, prop, plan, ctx):
        self.prop = prop
        self.plan = plan
        self.ctx = ctx
        self.cfg = plan['op']
        self.k1, self.k2 = plan['garbage']
        self.refs = {}
        self.replica = None
        self.held = []

    def dig(self, y):
        """Result bits for the event log -- not for FFTW-backed recipes:
        with planning effort 'measure' FFTW picks its algorithm by timing,
        and the last bits follow (1 of 1000 C03 runs diverged between two
        executions of the determinism self-test)."""
        return '' if getattr(self, 'nobit', False) else _dig(y)

    def viol(self, what, msg):
        raise Violation(self.prop, '{}/{}/{}'.format(self.prop, what,
                                                     self.site),
                        '{}: {} [options {}]'.format(self.site, msg,
                                                     opt_sig(self.cfg)))

    # -- setup ---------------------------------------------------------
    def setup(self):
        cfg = self.cfg
        fired = {}
        with seams.allocator(self.k1, salt=11, fired=fired):
            self.op = R.build(copy.deepcopy(cfg), None)
        self._count(fired)
        self.site = site_of(self.op, cfg)
        op = self.op
        g = np_rng('pool', self.plan['xseed'])
        pos = bool(cfg.get('positive', False))
        scale = cfg.get('scale', 1.0)
        with seams.allocator('zero'):
            self.xs = [SP.rand_elem(op.domain, g, scale, pos) for _ in range(3)]
            if not pos:
                gp = np_rng('xpat', self.plan['xseed'])
                for i_, pat in enumerate(self.plan.get('xpat', [])[:3]):
                    if pat == 'unit_norm' and op.is_functional:
                        # an indicator evaluated exactly on the boundary of
                        # its set is 0 or inf depending on the last bit of
                        # the norm, which depends on the memory layout
                        # (thorough seed 24): not a statement about calls
                        continue
                    if pat != 'rand':
                        _pattern(self.xs[i_], pat, gp)
                        self.ctx.fired('xpattern-' + pat)
            for i_, lay in enumerate(self.plan.get('xlay', [])[:3]):
                if lay != 'C':
                    self.xs[i_] = _relayout(self.xs[i_], lay)
                    self.ctx.fired('layout-x-' + lay)
        self.nobit = cfg['recipe'] in NOBIT_RECIPES
        self.is_functional = op.is_functional
        sib = getattr(op, '_sim_sibling', None)
        if sib is not None:
            # calls on a second product of the same factory come first
            try:
                with seams.allocator(self.k1, salt=12):
                    gs = np_rng('sibling', self.plan['xseed'])
                    y = SP.rand_elem(sib.domain, gs, scale, pos)
                    sib(y)
                    if sib.domain == sib.range:
                        sib(y, out=y)
                        sib(y, out=y)
                self.ctx.fired('sibling-called-first')
            except Exception:
                self.ctx.probe('sibling-call-raises')

    def _count(self, fired):
        for k, v in fired.items():
            self.ctx.fired('alloc-' + k, v)

    # -- stateless replica ---------------------------------------------
    def ref(self, i):
        if i not in self.refs:
            with seams.allocator('zero'):
                fresh = R.build(copy.deepcopy(self.cfg), None)
                x = _copy(self.xs[i])
                try:
                    self.refs[i] = ('ok', fresh(x))
                except (NotImplementedError,) as e:
                    raise Reject('call not implemented')
                except Exception as e:
                    self.refs[i] = ('raise', e)
        return self.refs[i]

    def tol(self, *things):
        eps = SP.eps_for(*things)
        mag = sum(SP.magnitude(t) for t in things) + 1.0
        return 1e4 * eps * mag * TOL_SCALE.get(self.cfg['recipe'], 1.0)

    # -- call wrappers ---------------------------------------------------
    def call(self, what, fn):
        """Run an odl call that the property says must succeed."""
        o = R.odl()
        try:
            return fn()
        except (Violation, Reject, HarnessError):
            raise
        except (NotImplementedError, o.OpNotImplementedError):
            self.ctx.probe('call-not-implemented')
            raise Reject('call not implemented')
        except Exception as e:
            msg = str(e)
            if self.prop == 'C10' and what != 'alias':
                # C10 judges only the aliased call against P(x); whether P(x)
                # itself works is C03's business
                self.ctx.probe('c10-plain-call-raises')
                raise Reject('plain call raises')
            if _legit_call_error(self.cfg, e):
                self.ctx.probe('documented-call-rejection')
                raise Reject('documented call-time rejection')
            leaf, func = _raise_site(e)
            raise Violation(
                self.prop, '{}/raise-{}/{}/{}/{}'.format(
                    self.prop, what, type(e).__name__, leaf, func),
                '{}: {} raised {}: {} [failing operator {}, in {}; options '
                '{}]'.format(self.site, what, type(e).__name__, msg[:200],
                             leaf, func, opt_sig(self.cfg)))

    # -- operations ------------------------------------------------------
    def do_oop(self, o):
        i = o['i']
        x = self.xs[i]
        snap = elem_snapshot(x) if SP.is_elem(x) else None
        kind, yref = self.ref(i)
        fired = {}
        with seams.allocator(self.k1, salt=21, fired=fired):
            if kind == 'raise':
                # the replica raised: the long-lived instance must raise too
                # (same verdict for both) -- and it is a violation either way
                y = self.call('oop', lambda: self.op(x))
            else:
                y = self.call('oop', lambda: self.op(x))
        self._count(fired)
        if y not in self.op.range:
            self.viol('not-in-range', 'op(x) returned {!r:.80} which is not '
                      'in op.range'.format(y))
        if snap is not None and not snapshot_equal_bits(snap, x):
            self.viol('x-modified-oop', 'op(x) modified its input')
        ok, d = SP.close(y, yref, self.tol(yref, x))
        if not ok:
            self.viol('history-dependence-oop',
                      'op(x) of the long-lived instance differs from a fresh '
                      'replica by {:.3g} (allocator garbage {})'.format(
                          d, self.k1))
        with seams.allocator(self.k2, salt=22, fired=fired):
            y2 = self.call('oop', lambda: self.op(x))
        if self.nobit:
            ok, d = SP.close(y, y2, self.tol(yref, x))
        else:
            ok = _bits(y) == _bits(y2)
            d = SP.close(y, y2, 0)[1]
        if not ok:
            self.viol('garbage-dependence-oop',
                      'op(x) differs between allocator garbage {} and {} by '
                      '{:.3g}'.format(self.k1, self.k2, d))
        self.ctx.event('oop', i, self.dig(y))
        self.note(i, 'oop', self.k1)
        if o.get('scribble_result') and SP.is_elem(y):
            # the caller owns what op(x) returned and overwrites it (seed
            # e03: an operator that hands out the same cached object again
            # would return the caller's numbers next time).  Not when the
            # result is a view of a pool element (RealPart returns x).
            from ..core import elem_arrays
            ya = elem_arrays(y)
            shares = any(np.shares_memory(a_, b_)
                         for x_ in self.xs if SP.is_elem(x_)
                         for a_ in ya for b_ in elem_arrays(x_))
            if not shares:
                fill_elem(y, 'huge', salt=9)
                self.held = [h for h in self.held if h[1] is not y]
                self.ctx.fired('caller-overwrites-returned-result')
                return y
        if SP.is_elem(y) and len(self.held) < 6:
            # the caller keeps the result: later calls must not change it
            self.held.append((i, y, elem_snapshot(y)))
        return y

    def check_held(self):
        for i, y, snap in self.held:
            if not snapshot_equal_bits(snap, y):
                self.viol('earlier-result-modified',
                          'a result returned earlier by op(x{}) and still '
                          'held by the caller was changed by a later call on '
                          'the same operator'.format(i))

    def do_deriv_mutate(self, o):
        """The caller asks for op.derivative(x) (whatever it returns or
        raises), then changes x in place -- its own element -- and calls
        again: nothing remembered from the first x may enter (seed b03)."""
        i, j = o['i'], o.get('j', 0)
        x = self.xs[i]
        if not SP.is_elem(x) or not SP.is_elem(self.xs[j]) or i == j:
            raise Reject('no element to change')
        try:
            with seams.allocator(self.k1, salt=27):
                self.op.derivative(x)
            self.ctx.fired('derivative-taken-then-x-changed')
        except Exception:
            self.ctx.probe('no-derivative')
        # results that are views of x change with x: the caller knows
        self.held = []
        with seams.allocator('zero'):
            x.lincomb(0.5, x, 0.5, self.xs[j])
        self.refs.pop(i, None)
        return self.do_oop({'t': 'oop', 'i': i})

    def do_ip(self, o):
        i = o['i']
        x = self.xs[i]
        op = self.op
        if self.is_functional:
            try:
                op(x, out=0.0)
            except TypeError:
                self.ctx.probe('functional-out-rejected')
                self.ctx.event('ip-func', i)
                return
            except Exception as e:
                self.viol('functional-out/' + type(e).__name__,
                          'functional called with out raised {} instead of a '
                          'TypeError'.format(type(e).__name__))
            self.viol('functional-out', 'functional accepted an out argument')
        if not hasattr(op.range, 'element') or not SP.is_elem(
                _try(lambda: op.range.element())):
            raise Reject('range without elements')
        kind, yref = self.ref(i)
        snap = elem_snapshot(x) if SP.is_elem(x) else None
        with seams.allocator('zero'):
            r = op.range.element()
            olay = o.get('olay', 'C')
            if olay == 'interleaved':
                # x and out as two columns of one table: disjoint memory
                # inside the same bounds (np.may_share_memory is True)
                olay = 'C'
                if SP.is_elem(x) and not hasattr(x, 'parts') and \
                        not hasattr(r, 'parts') and \
                        getattr(r, 'shape', None) == getattr(x, 'shape', 0) \
                        and getattr(r, 'dtype', 1) == getattr(x, 'dtype', 2):
                    xa0 = x.asarray()
                    tab = np.zeros(xa0.shape + (2,), dtype=xa0.dtype)
                    tab[..., 0] = xa0
                    x2 = op.domain.element(tab[..., 0])
                    r2 = op.range.element(tab[..., 1])
                    if np.shares_memory(x2.asarray(), tab) and \
                            np.shares_memory(r2.asarray(), tab):
                        x, r = x2, r2
                        snap = elem_snapshot(x)
                        self.ctx.fired('layout-interleaved-x-out')
            if olay != 'C':
                r = _relayout(r, olay)
                self.ctx.fired('layout-out-' + olay)
        used = fill_elem(r, o['fill'], salt=i)
        self.ctx.fired('out-' + str(used))
        fired = {}
        with seams.allocator(self.k1, salt=23, fired=fired):
            ret = self.call('ip', lambda: op(x, out=r))
        self._count(fired)
        if ret is not r:
            self.viol('ip-return', 'op(x, out=y) did not return y')
        if snap is not None and not snapshot_equal_bits(snap, x):
            self.viol('x-modified-ip', 'op(x, out=y) modified its input')
        if kind == 'raise':
            self.viol('oop-raises-ip-works',
                      'op(x) raises {} but op(x, out=y) succeeds'.format(
                          type(yref).__name__))
        ok, d = SP.close(r, yref, self.tol(yref, x))
        if not ok and self.cfg['recipe'] == 'ufunc' and \
                _numpy_out_defect(self.cfg.get('name'), x, op, o):
            # NumPy 1.26 itself: np.isnan(a, out=<bool view with a trailing
            # axis of length 1 and odd strides>) writes only the first
            # entries (seen in the thorough tier); not odl's doing
            self.ctx.probe('numpy-defect:{}-strided-out'.format(
                self.cfg.get('name')))
            raise Reject('NumPy itself is inconsistent for this out layout')
        if not ok:
            self.viol('ip-differs',
                      'op(x, out=y) differs from op(x) by {:.3g} (y was '
                      'filled with {}, allocator garbage {})'.format(
                          d, o['fill'], self.k1))
        self.ctx.event('ip', i, o['fill'], self.dig(r))
        self.note(i, 'ip', o['fill'])

    def do_alias(self, o):
        op = self.op
        i = o['i']
        x = self.xs[i]
        if self.is_functional:
            raise Reject('functional')
        lincomb = self.cfg['recipe'] == 'LinComb' and not self.cfg.get('derive')
        if op.domain != op.range and not lincomb:
            raise Reject('domain != range')
        kind, yref = self.ref(i)
        if kind == 'raise':
            raise Reject('reference raises')
        with seams.allocator('zero'):
            y = x.copy()
            if o.get('olay', 'C') != 'C':
                y = _relayout(y, o['olay'])
                self.ctx.fired('layout-out-' + o['olay'])
        out = y[o.get('j', 0)] if lincomb else y
        fired = {}
        with seams.allocator(self.k1, salt=24, fired=fired):
            ret = self.call('alias', lambda: op(y, out=out))
        self._count(fired)
        if ret is not out:
            self.viol('alias-return', 'P(x, out=x) did not return x')
        ok, d = SP.close(out, yref, self.tol(yref, x))
        if not ok:
            self.viol('alias',
                      'P(y, out=y) differs from P(x) by {:.3g} (allocator '
                      'garbage {})'.format(d, self.k1))
        if lincomb:
            other = y[1 - o.get('j', 0)]
            if _bits(other) != _bits(x[1 - o.get('j', 0)]):
                self.viol('alias-other-operand',
                          'LinComb(x, out=x[j]) modified the other component')
        if o.get('twice') and not lincomb:
            with seams.allocator('zero'):
                fresh = R.build(copy.deepcopy(self.cfg), None)
                try:
                    yref2 = fresh(_copy(yref))
                except Exception:
                    yref2 = None
            if yref2 is not None:
                with seams.allocator(self.k1, salt=26, fired=fired):
                    ret = self.call('alias', lambda: op(y, out=y))
                ok, d = SP.close(y, yref2, self.tol(yref2, yref, x))
                self.ctx.fired('alias-second-call-same-instance')
                if not ok:
                    self.viol('alias-second-call',
                              'a second P(y, out=y) on the same instance '
                              'differs from P(P(x)) of a fresh instance by '
                              '{:.3g}'.format(d))
        self.ctx.event('alias', i, self.dig(out))
        okx, dx = SP.close(yref, x, 0) if op.domain == op.range else (False, 1)
        if not okx:
            self.ctx.covered('alias', self.site, opt_sig(self.cfg), self.k1)

    def do_alias_held(self, o):
        """prox(e, out=e) where e is an element the operator itself holds
        (for all x: also the x that was given as translation / data)."""
        op = self.op
        if self.is_functional or op.domain != op.range:
            raise Reject('domain != range')
        held = _held_elements(op, op.domain)
        if not held:
            self.ctx.probe('alias-held-none')
            raise Reject('operator holds no domain element')
        e = held[o['k'] % len(held)]
        with seams.allocator('zero'):
            fresh = R.build(copy.deepcopy(self.cfg), None)
            try:
                yref = fresh(_copy(e))
            except Exception:
                raise Reject('reference raises')
        fired = {}
        with seams.allocator(self.k1, salt=26, fired=fired):
            ret = self.call('alias', lambda: op(e, out=e))
        self._count(fired)
        if ret is not e:
            self.viol('alias-return', 'P(x, out=x) did not return x')
        ok, d = SP.close(e, yref, self.tol(yref, yref))
        if not ok:
            # Measured, not judged: the caller asked for the result to be
            # written into the operator's own parameter, and on the unchanged
            # tree that already goes wrong for OperatorVectorSum,
            # Operator{Left,Right}VectorMult and the proximals with a data
            # term g (l2_squared, cc_l2_squared, cc_kl) when x is g.  Treated
            # as outside the domain of "for all x" (DESIGN.md section 11,
            # seed t10).
            self.ctx.probe('alias-held-differs:' + type(op).__name__)
        self.ctx.fired('alias-held-element')
        self.ctx.event('alias_held', self.dig(e))

    def do_mutate_held(self, o):
        """The caller changes, in place, an element it had handed to the
        operator (translation, data term, multiplicand ...) between two
        calls.  Whether the operator follows the change or works on a copy is
        its business -- but its in-place and out-of-place calls must agree
        with each other afterwards (seed e10: a value derived from the held
        element kept from the first in-place call).  Consumes the operator:
        the replica no longer describes it, hence last."""
        op = self.op
        if self.is_functional:
            raise Reject('functional')
        held = _held_elements(op, op.domain)
        if op.range != op.domain:
            held = held + _held_elements(op, op.range)
        x = self.xs[o['i']]
        held = [h for h in held if SP.is_elem(h) and h is not x]
        if not held or not SP.is_elem(x):
            raise Reject('operator holds no element')
        e = held[o['k'] % len(held)]
        with seams.allocator('zero'):
            r0 = op.range.element()
        fill_elem(r0, o['fill'], salt=3)
        with seams.allocator(self.k1, salt=28):
            try:
                op(x, out=r0)          # a first in-place call
            except Exception:
                raise Reject('call raises')
        with seams.allocator('zero'):
            e.lincomb(0.5, e, 0.25, e.space.one()) if hasattr(
                e.space, 'one') else e.lincomb(0.5, e)
        self.refs.clear()
        self.held = []
        with seams.allocator(self.k1, salt=29):
            try:
                y1 = op(x)
            except Exception:
                raise Reject('call raises after the change')
            with seams.allocator('zero'):
                r = op.range.element()
            fill_elem(r, o['fill'], salt=4)
            ret = self.call('ip', lambda: op(x, out=r))
        ok, d = SP.close(r, y1, self.tol(y1, x))
        self.ctx.fired('held-element-changed-between-calls')
        if not ok:
            self.viol('ip-differs-after-held-element-changed',
                      'after the caller changed an element the operator '
                      'holds, op(x, out=y) differs from op(x) on the same '
                      'operator by {:.3g}'.format(d))
        self.ctx.event('mutate_held', self.dig(r))

    def do_raw(self, o):
        """A convertible non-element input (array of the right or another
        floating dtype, Fortran-ordered array, nested list) gives the same
        result, and the caller's object is not modified."""
        op = self.op
        i = o['i']
        x = self.xs[i]
        if not SP.is_elem(x):
            raise Reject('field domain')
        od = R.odl()
        kind = o['kind']
        if isinstance(x.space, od.ProductSpace):
            if kind != 'list' or not x.space.is_power_space:
                raise Reject('product space input')
            raw = [np.array(p_.asarray(), copy=True).tolist()
                   for p_ in x.parts if not hasattr(p_, 'parts')]
            if len(raw) != len(x.parts):
                raise Reject('nested product space')
        else:
            arr = np.array(x.asarray(), copy=True)
            if kind == 'ndarray':
                raw = arr
            elif kind == 'ndarray_f':
                raw = np.asfortranarray(arr)
            elif kind == 'list':
                raw = arr.tolist()
            else:
                if arr.dtype.kind not in 'fc':
                    raise Reject('not a floating dtype')
                if not op.is_linear:
                    # rounding the input to another precision is amplified
                    # by the (unbounded) conditioning of nonlinear operators
                    raise Reject('other precision only for linear operators')
                other = {'float64': 'float32', 'float32': 'float64',
                         'complex128': 'complex64',
                         'complex64': 'complex128'}.get(str(arr.dtype))
                if other is None:
                    raise Reject('no other precision')
                raw = arr.astype(other)
        kindref, yref = self.ref(i)
        if kindref == 'raise':
            raise Reject('reference raises')
        before = raw.tobytes() if isinstance(raw, np.ndarray) else \
            repr(raw)
        fired = {}
        with seams.allocator(self.k1, salt=27, fired=fired):
            if o['path'] == 'oop' or self.is_functional or not SP.is_elem(
                    _try(lambda: op.range.element())):
                y = self.call('raw', lambda: op(raw))
            else:
                with seams.allocator('zero'):
                    y = op.range.element()
                fill_elem(y, o['fill'], salt=i)
                ret = self.call('raw', lambda: op(raw, out=y))
                if ret is not y:
                    self.viol('ip-return', 'op(x, out=y) did not return y')
        self._count(fired)
        after = raw.tobytes() if isinstance(raw, np.ndarray) else repr(raw)
        if before != after:
            self.viol('raw-input-modified',
                      'op(<{}>) modified the caller\'s object'.format(kind))
        tol = self.tol(yref, x)
        if kind == 'other_dtype':
            # the conversion itself rounds to the lower precision
            tol = max(tol, 1e3 * 1.2e-7 * (SP.magnitude(yref) +
                                           SP.magnitude(x) + 1.0))
            if self.cfg['recipe'] in TOL_SCALE:
                raise Reject('finite differences of a rounded input')
        ok, d = SP.close(y, yref, tol)
        if not ok:
            self.viol('raw-differs',
                      'op(<{}>) differs from op(element) by {:.3g}'.format(
                          kind, d))
        self.ctx.fired('raw-input-' + kind)
        self.ctx.event('raw', i, kind, self.dig(y) if kind != 'other_dtype'
                       else '')

    def do_reject_in(self, o):
        op = self.op
        od = R.odl()
        bad = _bad_input(op.domain, o['kind'], o.get('variant', 0))
        if bad is None:
            raise Reject('no bad input of this kind')
        r = None
        snap = None
        if not self.is_functional and SP.is_elem(_try(lambda: op.range.element())):
            with seams.allocator('zero'):
                r = op.range.element()
            fill_elem(r, 'stale', salt=3)
            snap = elem_snapshot(r)
        try:
            if r is not None:
                op(bad, out=r)
            else:
                op(bad)
        except od.OpDomainError:
            self.ctx.probe('reject-in-' + o['kind'])
        except Exception as e:
            self.viol('reject-in/' + type(e).__name__,
                      'input of kind {} raised {} instead of OpDomainError: '
                      '{}'.format(o['kind'], type(e).__name__, str(e)[:120]))
        else:
            self.viol('reject-in/accepted',
                      'input of kind {} ({!r:.60}) was accepted'.format(
                          o['kind'], bad))
        if snap is not None and not snapshot_equal_bits(snap, r):
            self.viol('reject-in/out-written',
                      'out was written although the input was rejected')
        self.ctx.event('reject_in', o['kind'])

    def do_reject_out(self, o):
        op = self.op
        od = R.odl()
        i = o['i']
        x = self.xs[i]
        if self.is_functional:
            raise Reject('functional')
        good = _try(lambda: op.range.element())
        if not SP.is_elem(good):
            raise Reject('range without elements')
        bads = []
        if o['kind'] == 'ndarray':
            arrs = elem_arrays(good)
            if len(arrs) != 1:
                raise Reject('no single array')
            bads.append(np.array(arrs[0], copy=True))
        elif o['kind'] == 'near_miss':
            # every distinct near-miss space (at most 4), starting with the
            # drawn variant
            seen = []
            for v in range(8):
                sp = _near_miss_space(op.range, (o.get('variant', 0) + v) % 8)
                if sp is None or any(_same_space(sp, q) for q in seen):
                    continue
                seen.append(sp)
                try:
                    with seams.allocator('zero'):
                        bads.append(sp.element())
                except Exception:
                    continue
                if len(bads) >= 4:
                    break
            if not bads:
                raise Reject('no near-miss space')
        else:
            n = sum(a.size for a in elem_arrays(good))
            bads.append(od.rn(n + 1).element())

        def flat(b):
            return np.concatenate([np.ravel(a).astype(complex)
                                   for a in elem_arrays(b)] or [np.zeros(0)])

        snapx = elem_snapshot(x) if SP.is_elem(x) else None
        for bad in bads:
            if isinstance(bad, np.ndarray):
                fill_garbage(bad, o['fill'], 1)
            else:
                fill_elem(bad, o['fill'], 1)
            before = flat(bad).copy()
            what = o['kind'] if isinstance(bad, np.ndarray) else \
                '{} ({!r:.50})'.format(o['kind'], bad.space)
            try:
                op(x, out=bad)
            except od.OpRangeError:
                self.ctx.probe('reject-out-' + o['kind'])
            except Exception as e:
                self.viol('reject-out/' + type(e).__name__,
                          'out of kind {} raised {} instead of OpRangeError: '
                          '{}'.format(what, type(e).__name__, str(e)[:120]))
            else:
                self.viol('reject-out/accepted',
                          'out of kind {} was accepted'.format(what))
            if before.tobytes() != flat(bad).tobytes():
                self.viol('reject-out/written',
                          'rejected out ({}) was written to'.format(what))
            if snapx is not None and not snapshot_equal_bits(snapx, x):
                self.viol('reject-out/x-modified',
                          'x modified by a rejected call')
        self.ctx.event('reject_out', o['kind'], len(bads))

    def do_scribble(self, o):
        n = 0
        for s in _scratch_of(self.op):
            used = fill_elem(s, o['fill'], salt=5)
            n += 1
        if n:
            self.ctx.fired('scribble-' + o['fill'], n)
        self.ctx.event('scribble', n)

    def note(self, i, path, kind):
        """Coverage: non-trivial when the result is not constant over the
        pool (decided lazily from the references)."""
        try:
            a = SP.to_flat(self.ref(0)[1])
            b = SP.to_flat(self.ref(1)[1])
            nontrivial = a.shape != b.shape or a.tobytes() != b.tobytes()
        except Exception:
            nontrivial = False
        if nontrivial:
            self.ctx.covered(type(self.op).__name__, self.cfg['recipe'],
                             opt_sig(self.cfg), path, kind)


def _raise_site(e):
    """(class of the innermost odl Operator whose __call__ is on the stack,
    innermost odl function) of an exception -- names the failing site
    independently of the wrappers (adjoint / scalar multiples / sums ...)
    around it."""
    leaf, func = '?', '?'
    tb = e.__traceback__
    while tb is not None:
        f = tb.tb_frame
        mod = f.f_globals.get('__name__', '')
        if mod.startswith('odl.'):
            func = mod.split('.')[-1] + '.' + f.f_code.co_name
            if f.f_code.co_name == '__call__' and 'self' in f.f_locals and \
                    hasattr(f.f_locals['self'], 'domain'):
                leaf = type(f.f_locals['self']).__name__
        tb = tb.tb_next
    return leaf, func


def _legit_call_error(cfg, e):
    msg = str(e)
    if cfg['recipe'] == 'Resizing' and isinstance(e, ValueError) and \
            'padding' in msg:
        return True       # documented limits of symmetric / order-1 padding
    if isinstance(e, ValueError) and 'not defined for' in msg:
        return True       # documented domain restriction (KL gradients)
    if cfg['recipe'] == 'ufunc' and isinstance(e, ValueError) and \
            'negative integer powers' in msg:
        return True
    return False


def _try(fn):
    try:
        return fn()
    except Exception:
        return None


def _copy(x):
    if SP.is_elem(x):
        return x.copy()
    return copy.copy(x)


def _bits(y):
    if SP.is_elem(y) or isinstance(y, np.ndarray):
        return b''.join(np.ascontiguousarray(a).tobytes()
                        for a in elem_arrays(y))
    return np.asarray(y).tobytes()


def _dig(y):
    if SP.is_elem(y):
        return elem_digest(y)
    return repr(y)


def _near_miss_space(space, variant):
    """A space that differs from `space` in one respect only (one factor of
    a product space, power vs. heterogeneous, weighting, exponent, extent of
    the discretized domain): its elements must be rejected like any other
    non-element, and before anything is written."""
    od = R.odl()
    try:
        if isinstance(space, od.ProductSpace):
            facs = list(space.spaces)
            if not facs:
                return None
            kw = {}
            if variant % 4 == 0 and len(facs) >= 2 and not space.is_power_space:
                cand = od.ProductSpace(facs[0], len(facs))     # power twin
            elif variant % 4 == 1 and len(facs) >= 2 and space.is_power_space:
                other = _near_miss_space(facs[-1], variant // 4) or od.rn(2)
                cand = od.ProductSpace(*(facs[:-1] + [other]))
            elif variant % 4 == 2:
                cand = od.ProductSpace(*facs, exponent=1.5)
            else:
                other = _near_miss_space(facs[0], variant // 4)
                if other is None:
                    return None
                cand = od.ProductSpace(*([other] + facs[1:]))
        elif isinstance(space, od.DiscretizedSpace):
            if variant % 2 == 0:
                cand = od.uniform_discr(space.min_pt, space.max_pt + 1.0,
                                        space.shape, dtype=space.dtype)
            else:
                cand = space.tensor_space if hasattr(space, 'tensor_space') \
                    else od.tensor_space(space.shape, dtype=space.dtype)
        elif hasattr(space, 'shape') and hasattr(space, 'dtype'):
            if variant % 3 == 0:
                cand = od.tensor_space(space.shape, dtype=space.dtype,
                                       weighting=3.0)
            elif variant % 3 == 1:
                cand = od.tensor_space(space.shape, dtype=space.dtype,
                                       exponent=1.5)
            else:
                dt = np.dtype(space.dtype)
                other = {'f': 'complex128', 'c': 'float64'}.get(dt.kind,
                                                                 'float64')
                cand = od.tensor_space(space.shape, dtype=other)
        else:
            return None
        if _same_space(cand, space):
            return None
        return cand
    except Exception:
        return None


def _same_space(a, b):
    """Structural equality of two spaces, independent of their own __eq__
    (which is part of what is under test)."""
    od = R.odl()
    if type(a) is not type(b):
        return False
    if isinstance(a, od.ProductSpace):
        return (len(a) == len(b) and
                getattr(a, 'exponent', None) == getattr(b, 'exponent', None)
                and repr(getattr(a, 'weighting', None)) ==
                repr(getattr(b, 'weighting', None)) and
                all(_same_space(p, q) for p, q in zip(a.spaces, b.spaces)))
    keys = ('shape', 'dtype', 'exponent')
    if any(getattr(a, k, None) != getattr(b, k, None) for k in keys):
        return False
    if repr(getattr(a, 'weighting', None)) != repr(getattr(b, 'weighting',
                                                           None)):
        return False
    for k in ('min_pt', 'max_pt'):
        if hasattr(a, k) and not np.array_equal(getattr(a, k),
                                                getattr(b, k)):
            return False
    return True


def _bad_input(domain, kind, variant=0):
    od = R.odl()
    if kind == 'string':
        return 'not an element'
    if kind == 'near_miss':
        sp = _near_miss_space(domain, variant)
        if sp is None:
            return None
        try:
            return sp.one()
        except Exception:
            return None
    try:
        good = domain.element()
    except Exception:
        good = None
    if kind == 'wrong_space':
        if good is None or not SP.is_elem(good):
            return od.rn(3).one()       # field domain: a vector is no scalar
        n = sum(a.size for a in elem_arrays(good))
        return od.rn(n + 1).one()
    if kind == 'wrong_shape':
        if good is None or not SP.is_elem(good):
            return np.ones((2, 2))
        n = sum(a.size for a in elem_arrays(good))
        return np.ones(n + 2)
    return None


def _numpy_out_defect(name, x, op, o):
    """Does plain NumPy give different numbers with and without an out
    array of the layout used in this call?"""
    try:
        uf = getattr(np, name)
        ins = [np.array(a, copy=True) for a in elem_arrays(x)]
        if len(ins) != uf.nin or uf.nout != 1:
            return False
        with np.errstate(all='ignore'):
            want = uf(*ins)
            # (two prefills: entries NumPy fails to write keep the prefill,
            # which may happen to be the right answer)
            for pre in (1, 0):
                with seams.allocator('zero'):
                    r2 = SP.relayout(op.range.element(), o.get('olay', 'C'))
                arr = elem_arrays(r2)[0]
                arr[...] = np.full((), pre, dtype=arr.dtype)
                uf(*ins, out=arr)
                if not np.array_equal(arr, want.astype(arr.dtype),
                                      equal_nan=True):
                    return True
        return False
    except Exception:
        return False


def _held_elements(op, domain, limit=400):
    """Space elements of `domain` reachable from an operator: instance
    attributes, containers, and the closure cells of the methods of classes
    defined inside factory functions (where proximal factories keep their
    data term, translation, step ...)."""
    import types
    seen, found, queue = set(), [], [(op, 0)]
    while queue and len(seen) < limit:
        obj, depth = queue.pop(0)
        if id(obj) in seen:
            continue
        seen.add(id(obj))
        if hasattr(obj, 'space') and hasattr(obj, 'lincomb'):
            try:
                if obj in domain and all(id(obj) != id(f) for f in found):
                    found.append(obj)
            except Exception:
                pass
            continue
        if depth >= 5:
            continue
        nxt = []
        if isinstance(obj, (list, tuple)):
            nxt = list(obj)
        elif isinstance(obj, dict):
            nxt = list(obj.values())
        elif isinstance(obj, (types.FunctionType, types.MethodType)):
            fn = getattr(obj, '__func__', obj)
            for c in (fn.__closure__ or ()):
                try:
                    nxt.append(c.cell_contents)
                except ValueError:
                    pass
            if isinstance(obj, types.MethodType):
                nxt.append(obj.__self__)
        elif type(obj).__module__.startswith('odl'):
            nxt = list(getattr(obj, '__dict__', {}).values())
            for klass in type(obj).__mro__:
                if not klass.__module__.startswith('odl'):
                    continue
                if '<locals>' not in klass.__qualname__:
                    continue
                nxt += [v for v in vars(klass).values()
                        if isinstance(v, types.FunctionType)]
        for n in nxt:
            if isinstance(n, (int, float, complex, str, bytes, type(None),
                              np.ndarray, np.generic)):
                continue
            queue.append((n, depth + 1))
    return found


def _scratch_of(op):
    """Caller-supplied / retained scratch reachable from an operator."""
    out = list(getattr(op, '_sim_scratch', []) or [])
    for name in ('_tmp_r', '_tmp_f'):
        t = getattr(op, name, None)
        if isinstance(t, np.ndarray):
            out.append(t)
    return [s for s in out if s is not None]


_CALLED = set()
_hooked = [False]


def _hook_operator_call():
    """Harness-side seam: wrap Operator.__call__ to record which operator
    classes were actually evaluated (as nodes of expressions, too)."""
    if _hooked[0]:
        return
    o = R.odl()
    orig = o.Operator.__call__

    names = all_operator_classes(by_class=True)

    def __call__(self, x, out=None, **kwargs):
        t = type(self)
        _CALLED.add(names.get(t) or t.__module__ + '.' + t.__name__)
        return orig(self, x, out, **kwargs)

    __call__.__doc__ = orig.__doc__
    o.Operator.__call__ = __call__
    _hooked[0] = True


def all_operator_classes(by_class=False):
    import importlib
    import inspect
    import pkgutil
    o = R.odl()
    seen = set()
    bycls = {}
    for m in pkgutil.walk_packages(o.__path__, 'odl.'):
        if '.test' in m.name or 'contrib' in m.name:
            continue
        try:
            mod = importlib.import_module(m.name)
        except Exception:
            continue
        for n, c in vars(mod).items():
            if inspect.isclass(c) and issubclass(c, o.Operator) and \
                    c.__module__ == mod.__name__:
                seen.add(c.__module__ + '.' + n)
                bycls[c] = c.__module__ + '.' + n
    return bycls if by_class else seen


def extra_evidence(prop, total):
    called = set()
    for c in total['cover']:
        if c.startswith('class-called|'):
            called.add(c.split('|', 1)[1])
    allc = all_operator_classes()
    # classes created inside factories (proximals, gradients) have no
    # importable name; report them separately
    local = sorted(c for c in called if c not in allc)
    return {'operator_classes_enumerated': len(allc),
            'operator_classes_called': len(called & allc),
            'classes_defined_in_factories_called': len(local),
            'uncovered_classes': sorted(allc - called)}


def execute(prop, plan, ctx):
    _hook_operator_call()
    _CALLED.clear()
    try:
        _execute(prop, plan, ctx)
    finally:
        for c in _CALLED:
            ctx.cover.add('class-called|' + c)


def _execute(prop, plan, ctx):
    if plan.get('dead'):
        if str(plan['dead']).startswith('build-error'):
            ctx.probe('build-error:' + plan['op']['recipe'])
        raise Reject('recipe rejected at generation')
    seams.begin_run(plan.get('global_seed', 0))
    try:
        import pyfftw
        pyfftw.forget_wisdom()
    except Exception:
        pass
    run = Run(prop, plan, ctx)
    run.setup()
    fn = {'oop': run.do_oop, 'ip': run.do_ip, 'alias': run.do_alias,
          'reject_in': run.do_reject_in, 'reject_out': run.do_reject_out,
          'scribble': run.do_scribble, 'alias_held': run.do_alias_held,
          'raw': run.do_raw, 'deriv_mutate': run.do_deriv_mutate,
          'mutate_held': run.do_mutate_held}
    done = 0
    for o in plan['ops']:
        try:
            fn[o['t']](o)
            run.check_held()
            done += 1
        except Reject:
            if done == 0 and o is plan['ops'][-1]:
                raise
            continue
        ctx.step()
    if done == 0:
        raise Reject('no applicable operation')
