"""Solver instances for solversim: how each shipped solver is configured,
invoked, and which caller-held state survives an interruption.

A config is JSON; `build(cfg)` turns it into an `Instance` holding real odl
objects.  Nothing here is a model of a solver: `run` calls the solver in /repo.
"""
import numpy as np

from ..core import np_rng, Reject, elem_flat
from .. import problems as P


def odl():
    import odl as _odl
    return _odl


class Instance(object):
    """A solver bound to a problem.  `state` is the dict of elements the
    *caller* owns and passes in (what survives a crash)."""
    name = None
    state_keys = ('x',)

    def __init__(self, cfg):
        self.cfg = cfg

    def fresh_state(self):
        return {k: v.copy() for k, v in self.state0.items()}

    def run(self, st, niter, callback=None):
        raise NotImplementedError

    def run_ref(self, st, niter, callback=None):
        raise NotImplementedError

    # number of callback invocations per unit of `niter`
    cb_per_iter = 1
    # iterations already done by earlier calls on the same state (what the
    # caller knows when it resumes; used for iteration-dependent parameters)
    offset = 0


# --------------------------------------------------------------------------
# generators
# --------------------------------------------------------------------------

def _gen_XL(rng, allow_ops=None, space_kinds=None):
    X = P.gen_space(rng, kinds=space_kinds or P.SPACE_KINDS)
    if allow_ops:
        L = P.gen_op(rng, X, allow=allow_ops)
    else:
        L = P.gen_op(rng, X)
    return X, L


def gen_instance(rng, solver):
    cfg = {'solver': solver, 'seed': rng.getrandbits(32)}
    u = lambda a, b: round(rng.uniform(a, b), 4)
    if solver == 'admm':
        cfg['X'], cfg['L'] = _gen_XL(rng)
        cfg['f'] = None   # filled after range is known (needs real spaces)
        cfg['sigma'] = rng.choice([0.5, 1.0, 2.0, 0.1])
        cfg['tau_frac'] = u(0.3, 0.95)
    elif solver == 'adupdates':
        cfg['X'] = P.gen_space(rng)
        cfg['Ls'] = [P.gen_op(rng, cfg['X']) for _ in range(rng.randint(1, 3))]
        if rng.random() < 0.3 and len(cfg['Ls']) >= 2:
            # two equal-but-distinct operators (equal range spaces that are
            # different objects; exercises the solvers' dict/set of ranges)
            cfg['Ls'][1] = dict(cfg['Ls'][0])
        cfg['stepsize'] = rng.choice([0.5, 1.0, 2.0, 5.0])
        cfg['inner_frac'] = [u(0.3, 0.95) for _ in cfg['Ls']]
        cfg['inner_form'] = [rng.choice(['scalar', 'scalar', 'list', 'elem'])
                             for _ in cfg['Ls']]
        cfg['random'] = rng.random() < 0.5
        cfg['callback_loop'] = rng.choice(['outer', 'inner'])
        # the same functional *object* at several positions of g (when the
        # ranges allow it): per-position data must not be keyed by it
        cfg['share_g'] = rng.random() < 0.35
    elif solver == 'doubleprox_dc':
        cfg['X'], cfg['L'] = _gen_XL(rng)
        cfg['gamma_frac'] = u(0.2, 0.9)
        cfg['mu_frac'] = u(0.2, 0.9)
    elif solver in ('landweber', 'cg_normal'):
        cfg['X'], cfg['L'] = _gen_XL(rng)
        cfg['omega_frac'] = u(0.2, 1.9)
        cfg['projection'] = rng.random() < 0.3
    elif solver == 'kaczmarz':
        cfg['X'] = P.gen_space(rng)
        cfg['Ls'] = [P.gen_op(rng, cfg['X'], allow=('matrix', 'identity', 'viewid',
                                                    'scaling', 'partial'))
                     for _ in range(rng.randint(1, 4))]
        if rng.random() < 0.3 and len(cfg['Ls']) >= 2:
            cfg['Ls'][1] = dict(cfg['Ls'][0])
        cfg['omega_frac'] = [u(0.2, 1.9) for _ in cfg['Ls']]
        cfg['omega_scalar'] = rng.random() < 0.3
        cfg['projection'] = rng.random() < 0.3
        cfg['callback_loop'] = rng.choice(['outer', 'outer', 'inner'])
    elif solver in ('proximal_gradient', 'accelerated_proximal_gradient'):
        cfg['X'] = P.gen_space(rng)
        cfg['gamma_frac'] = u(0.2, 0.95)
        cfg['lam'] = rng.choice([1.0, 1.0, 0.5, 1.5])
        # relaxation as a function of the iteration number (the caller owns
        # the schedule: a resumed call gets it shifted by what is done)
        cfg['lam_sched'] = rng.choice([None, None, 'h2', 'warm', 'decay',
                                       'const'])
    elif solver in ('mlem', 'osmlem'):
        cfg['X'] = P.gen_space(rng, kinds=('rn',))
        cfg['nops'] = 1 if solver == 'mlem' else rng.randint(1, 3)
        cfg['ms'] = [rng.randint(1, 6) for _ in range(cfg['nops'])]
        cfg['sens'] = rng.choice(['none', 'none', 'given', 'given_float'])
    elif solver == 'steepest_descent':
        cfg['X'] = P.gen_space(rng)
        cfg['step_frac'] = u(0.2, 0.9)
        cfg['projection'] = rng.random() < 0.3
    elif solver == 'pdhg':
        cfg['X'], cfg['L'] = _gen_XL(rng)
        cfg['theta'] = rng.choice([1.0, 1.0, 0.5, 0.0])
        cfg['tau_frac'] = u(0.3, 0.95)
        cfg['ratio'] = rng.choice([1.0, 0.25, 4.0])
    elif solver in ('douglas_rachford', 'forward_backward'):
        cfg['X'] = P.gen_space(rng)
        cfg['Ls'] = [P.gen_op(rng, cfg['X']) for _ in range(rng.randint(1, 2))]
        cfg['frac'] = u(0.3, 0.9)
        cfg['lam'] = rng.choice([1.0, 1.0, 0.7, 1.5])
    elif solver in ('cg',):
        cfg['X'], cfg['L'] = _gen_XL(rng, allow_ops=('matrix', 'identity', 'viewid',
                                                     'scaling', 'partial'))
        cfg['shift'] = rng.choice([0.1, 1.0, 1e-2])
    elif solver in ('dca', 'prox_dca'):
        cfg['X'] = P.gen_space(rng)
        cfg['gamma_frac'] = u(0.2, 0.9)
    elif solver in ('gauss_newton', 'newton', 'bfgs', 'broyden', 'nlcg', 'adam'):
        cfg['X'] = P.gen_space(rng, kinds=('rn', 'discr1d'))
        cfg['L'] = P.gen_op(rng, cfg['X'], allow=('matrix', 'identity', 'viewid',
                                                  'scaling', 'partial'))
        cfg['opt'] = rng.choice([0, 1, 2])
    else:
        raise ValueError(solver)
    # functional configs need to know whether the range is a product space;
    # they are drawn lazily from a sub-generator seeded here so that the plan
    # stays a pure function of the seed.
    cfg['fseed'] = rng.getrandbits(32)
    return cfg


# --------------------------------------------------------------------------
# builders
# --------------------------------------------------------------------------

PROX_FAMS = P.BASE_FAMILIES


def _frng(cfg, *extra):
    import random
    from ..core import derive
    return random.Random(derive('fcfg', cfg['fseed'], *extra))


def _func(cfg, key, space, families=PROX_FAMS):
    """Functional config stored under cfg[key] (drawn on first build so that
    product/non-product ranges get a fitting family; stored for replay)."""
    fc = cfg.get(key)
    if fc is None:
        fc = P.gen_func_for(_frng(cfg, key), space, families)
        cfg[key] = fc
    return P.build_func(fc, space), fc


class Admm(Instance):
    name = 'admm'

    def __init__(self, cfg):
        Instance.__init__(self, cfg)
        o = odl()
        self.X = P.build_space(cfg['X'])
        self.L = P.build_op(cfg['L'], self.X)
        P.adjoint_filter(self.L, cfg['seed'])
        self.f, _ = _func(cfg, 'f', self.X)
        self.g, _ = _func(cfg, 'g', self.L.range)
        nrm = P.op_norm_true(self.L)
        if nrm == 0:
            raise Reject('zero operator')
        self.sigma = cfg['sigma']
        self.tau = cfg['tau_frac'] * self.sigma / nrm ** 2
        g = np_rng('x0', cfg['seed'])
        self.state0 = {'x': P.rand_elem(self.X, g)}
        self.tags = (P.func_tag(cfg['f']), P.func_tag(cfg['g']),
                     P.op_tag(cfg['L']), cfg['X']['kind'])

    def run(self, st, niter, callback=None):
        odl().solvers.admm_linearized(st['x'], self.f, self.g, self.L,
                                      self.tau, self.sigma, niter,
                                      callback=callback)

    def run_ref(self, st, niter, callback=None):
        from odl.solvers.nonsmooth.admm import admm_linearized_simple
        admm_linearized_simple(st['x'], self.f, self.g, self.L, self.tau,
                               self.sigma, niter, callback=callback)


class AdUpdates(Instance):
    name = 'adupdates'

    def __init__(self, cfg):
        Instance.__init__(self, cfg)
        o = odl()
        self.X = P.build_space(cfg['X'])
        self.Ls = [P.build_op(c, self.X) for c in cfg['Ls']]
        for i, L in enumerate(self.Ls):
            P.adjoint_filter(L, cfg['seed'] + i)
        self.gs = []
        self.inner = []
        forms = []
        for i, L in enumerate(self.Ls):
            form = cfg['inner_form'][i]
            Y = L.range
            if form == 'list' and not isinstance(Y, o.ProductSpace):
                form = 'scalar'
            if form == 'elem' and isinstance(Y, o.ProductSpace):
                form = 'scalar'
            fams = PROX_FAMS
            if form == 'elem':
                fams = ('l1', 'l2sq')      # documented for element step sizes
            key = 'g%d' % i
            if form == 'list' and cfg.get(key) is None:
                frng = _frng(cfg, key)
                cfg[key] = {'fam': 'sepsum', 'seed': frng.getrandbits(32),
                            'lam': 1.0,
                            'parts': [P.gen_func_for(frng, s, PROX_FAMS)
                                      for s in Y]}
            shared = None
            if cfg.get('share_g'):
                for k_ in range(i):
                    if self.Ls[k_].range == Y and forms[k_] != 'list' and \
                            form != 'list' and cfg.get('g%d' % k_, {}).get(
                                'fam') in fams:
                        shared = k_
                        break
            if shared is not None:
                gi, gc = self.gs[shared], cfg['g%d' % shared]
                cfg[key] = gc
            else:
                gi, gc = _func(cfg, key, Y, fams)
            if form == 'elem' and gc['fam'] not in ('l1', 'l2sq'):
                form = 'scalar'
            if form == 'list' and gc['fam'] != 'sepsum':
                form = 'scalar'
            nrm = P.op_norm_true(L)
            if nrm == 0:
                raise Reject('zero operator')
            base = cfg['inner_frac'][i] / nrm ** 2
            if form == 'scalar':
                self.inner.append(base)
            elif form == 'list':
                self.inner.append([base * (0.5 + 0.5 * (j % 2))
                                   for j in range(len(Y))])
            else:
                gg = np_rng('inner', cfg['seed'], i)
                self.inner.append(Y.element(
                    base * gg.uniform(0.3, 1.0, Y.shape)))
            forms.append(form)
            self.gs.append(gi)
        self.forms = forms
        self.stepsize = cfg['stepsize']
        self.random = cfg['random']
        self.callback_loop = cfg['callback_loop']
        g = np_rng('x0', cfg['seed'])
        self.state0 = {'x': P.rand_elem(self.X, g)}
        self.cb_per_iter = len(self.Ls) if self.callback_loop == 'inner' else 1
        self.tags = (','.join(P.func_tag(cfg['g%d' % i])
                              for i in range(len(self.Ls))),
                     ','.join(forms), ','.join(P.op_tag(c) for c in cfg['Ls']),
                     cfg['X']['kind'], 'rand' if self.random else 'fixed')

    def run(self, st, niter, callback=None):
        odl().solvers.adupdates(st['x'], self.gs, self.Ls, self.stepsize,
                                self.inner, niter, random=self.random,
                                callback=callback,
                                callback_loop=self.callback_loop)

    def run_ref(self, st, niter, callback=None):
        from odl.solvers.nonsmooth.alternating_dual_updates import (
            adupdates_simple)
        adupdates_simple(st['x'], self.gs, self.Ls, self.stepsize, self.inner,
                         niter, random=self.random)


class DoubleProxDC(Instance):
    name = 'doubleprox_dc'
    state_keys = ('x', 'y')

    def __init__(self, cfg):
        Instance.__init__(self, cfg)
        self.X = P.build_space(cfg['X'])
        self.K = P.build_op(cfg['L'], self.X)
        P.adjoint_filter(self.K, cfg['seed'])
        self.f, _ = _func(cfg, 'f', self.X)
        self.phi, pc = _func(cfg, 'phi', self.X, P.SMOOTH_FAMILIES)
        self.g, _ = _func(cfg, 'g', self.K.range)
        nrm = P.op_norm_true(self.K)
        lip = P.true_lipschitz(cfg['phi'])
        if not np.isfinite(lip):
            raise Reject('phi without finite Lipschitz constant')
        self.gamma = cfg['gamma_frac'] / (nrm + lip + 1.0)
        self.mu = cfg['mu_frac'] / (nrm + 1.0)
        self.amp = (1 + self.gamma * (nrm + lip)) * (1 + self.mu * nrm)
        g = np_rng('x0', cfg['seed'])
        self.state0 = {'x': P.rand_elem(self.X, g),
                       'y': P.rand_elem(self.K.range, g)}
        self.tags = (P.func_tag(cfg['f']), P.func_tag(cfg['phi']),
                     P.func_tag(cfg['g']), P.op_tag(cfg['L']), cfg['X']['kind'])

    def run(self, st, niter, callback=None):
        odl().solvers.doubleprox_dc(st['x'], st['y'], self.f, self.phi, self.g,
                                    self.K, niter, self.gamma, self.mu,
                                    callback=callback)

    def run_ref(self, st, niter, callback=None):
        from odl.solvers.nonsmooth.difference_convex import (
            doubleprox_dc_simple)
        doubleprox_dc_simple(st['x'], st['y'], self.f, self.phi, self.g,
                             self.K, niter, self.gamma, self.mu)


def _box_projection(lo, hi):
    def projection(x):
        x[:] = np.clip(x.asarray(), lo, hi)
    return projection


class Landweber(Instance):
    name = 'landweber'

    def __init__(self, cfg):
        Instance.__init__(self, cfg)
        self.X = P.build_space(cfg['X'])
        self.L = P.build_op(cfg['L'], self.X)
        P.adjoint_filter(self.L, cfg['seed'])
        nrm = P.op_norm_true(self.L)
        if nrm == 0:
            raise Reject('zero operator')
        self.nrm = nrm
        self.omega = cfg['omega_frac'] / nrm ** 2
        g = np_rng('x0', cfg['seed'])
        self.xtrue = P.rand_elem(self.X, g)
        self.rhs = self.L(self.xtrue) + 0.05 * P.rand_elem(self.L.range, g)
        self.state0 = {'x': P.rand_elem(self.X, g)}
        self.projection = _box_projection(-2.0, 2.0) if cfg['projection'] else None
        self.tags = (P.op_tag(cfg['L']), cfg['X']['kind'],
                     'proj' if cfg['projection'] else 'noproj')

    def run(self, st, niter, callback=None):
        odl().solvers.landweber(self.L, st['x'], self.rhs, niter,
                                omega=self.omega, projection=self.projection,
                                callback=callback)


class CGNormal(Landweber):
    name = 'cg_normal'

    def run(self, st, niter, callback=None):
        odl().solvers.conjugate_gradient_normal(self.L, st['x'], self.rhs,
                                                niter, callback=callback)


class Kaczmarz(Instance):
    name = 'kaczmarz'

    def __init__(self, cfg, consistent=False):
        Instance.__init__(self, cfg)
        self.X = P.build_space(cfg['X'])
        self.Ls = [P.build_op(c, self.X) for c in cfg['Ls']]
        for i, L in enumerate(self.Ls):
            P.adjoint_filter(L, cfg['seed'] + i)
        self.norms = [P.op_norm_true(L) for L in self.Ls]
        if min(self.norms) == 0:
            raise Reject('zero operator')
        g = np_rng('x0', cfg['seed'])
        self.xtrue = P.rand_elem(self.X, g, scale=0.5)
        noise = 0.0 if (consistent or cfg.get('consistent')) else 0.05
        self.rhs = [L(self.xtrue) + noise * P.rand_elem(L.range, g)
                    for L in self.Ls]
        if cfg['omega_scalar']:
            self.omega = cfg['omega_frac'][0] / max(self.norms) ** 2
        else:
            self.omega = [f / n ** 2 for f, n in zip(cfg['omega_frac'], self.norms)]
        self.random = bool(cfg.get('random', False))
        self.callback_loop = cfg['callback_loop']
        self.projection = _box_projection(-2.0, 2.0) if cfg['projection'] else None
        self.state0 = {'x': P.rand_elem(self.X, g)}
        self.cb_per_iter = len(self.Ls) if self.callback_loop == 'inner' else 1
        self.tags = (','.join(P.op_tag(c) for c in cfg['Ls']), cfg['X']['kind'],
                     'proj' if cfg['projection'] else 'noproj',
                     'rand' if self.random else 'fixed')

    def run(self, st, niter, callback=None):
        odl().solvers.kaczmarz(self.Ls, st['x'], self.rhs, niter,
                               omega=self.omega, projection=self.projection,
                               random=self.random, callback=callback,
                               callback_loop=self.callback_loop)


class ProxGrad(Instance):
    name = 'proximal_gradient'
    accelerated = False

    def __init__(self, cfg):
        Instance.__init__(self, cfg)
        self.X = P.build_space(cfg['X'])
        self.f, _ = _func(cfg, 'f', self.X)
        self.g, _ = _func(cfg, 'g', self.X, ('l2sq', 'l2sq_trans', 'huber',
                                             'quadpert_smooth'))
        lip = P.true_lipschitz(cfg['g'])
        if not np.isfinite(lip) or lip <= 0:
            raise Reject('no Lipschitz constant')
        self.gamma = cfg['gamma_frac'] / lip
        self.lam = cfg['lam']
        self.sched = None if self.accelerated else cfg.get('lam_sched')
        g = np_rng('x0', cfg['seed'])
        self.state0 = {'x': P.rand_elem(self.X, g)}
        self.tags = (P.func_tag(cfg['f']), P.func_tag(cfg['g']),
                     cfg['X']['kind'], self.sched or 'lam-number')

    SCHEDULES = {
        'h2': lambda k: 2.0 / (k + 2.0),
        'warm': lambda k: 1.0 if k < 2 else 0.6,
        'decay': lambda k: 1.5 / (k + 1.0),
        'const': lambda k: 0.8,
    }

    def run(self, st, niter, callback=None):
        S = odl().solvers
        if self.accelerated:
            S.accelerated_proximal_gradient(st['x'], self.f, self.g,
                                            self.gamma, niter,
                                            callback=callback)
        else:
            lam = self.lam
            if self.sched:
                sch, off = self.SCHEDULES[self.sched], self.offset
                lam = lambda k: sch(k + off)
            S.proximal_gradient(st['x'], self.f, self.g, self.gamma, niter,
                                callback=callback, lam=lam)


class AccProxGrad(ProxGrad):
    name = 'accelerated_proximal_gradient'
    accelerated = True


class OSMlem(Instance):
    name = 'osmlem'

    def __init__(self, cfg):
        Instance.__init__(self, cfg)
        o = odl()
        self.X = P.build_space(cfg['X'])
        g = np_rng('mlem', cfg['seed'])
        self.ops = [o.MatrixOperator(np.abs(g.standard_normal((m, self.X.size))) + 0.05,
                                     domain=self.X, range=o.rn(m))
                    for m in cfg['ms']]
        xt = P.rand_elem(self.X, g, positive=True)
        self.data = [op(xt) * (1 + 0.05 * g.standard_normal(op.range.shape))
                     for op in self.ops]
        self.data = [np.abs(d.asarray()) for d in self.data]
        self.sens = None
        if cfg['sens'] == 'given':
            self.sens = [op.adjoint(op.range.one()) * 1.3 for op in self.ops]
        elif cfg['sens'] == 'given_float':
            # (a single domain element is documented but is iterated like a
            # list by osmlem -- outside C11, not generated)
            self.sens = 1.7
        self.state0 = {'x': P.rand_elem(self.X, g, positive=True)}
        self.cb_per_iter = len(self.ops)
        self.mlem = cfg['solver'] == 'mlem'
        self.tags = (cfg['sens'], len(self.ops), cfg['X']['n'])

    def run(self, st, niter, callback=None):
        S = odl().solvers
        kw = {}
        if self.sens is not None:
            kw['sensitivities'] = self.sens
        if self.mlem:
            if self.sens is not None and isinstance(self.sens, list):
                kw['sensitivities'] = 2.3
            S.mlem(self.ops[0], st['x'], self.data[0], niter,
                   callback=callback, **kw)
        else:
            S.osmlem(self.ops, st['x'], self.data, niter, callback=callback,
                     **kw)


class Mlem(OSMlem):
    name = 'mlem'


class SteepestDescent(Instance):
    name = 'steepest_descent'

    def __init__(self, cfg):
        Instance.__init__(self, cfg)
        self.X = P.build_space(cfg['X'])
        self.f, _ = _func(cfg, 'f', self.X, ('l2sq', 'l2sq_trans', 'huber',
                                             'quadpert_smooth'))
        lip = P.true_lipschitz(cfg['f'])
        if not np.isfinite(lip) or lip <= 0:
            raise Reject('no Lipschitz constant')
        self.step = cfg['step_frac'] / lip
        self.projection = _box_projection(-2.0, 2.0) if cfg['projection'] else None
        g = np_rng('x0', cfg['seed'])
        self.state0 = {'x': P.rand_elem(self.X, g)}
        self.tags = (P.func_tag(cfg['f']), cfg['X']['kind'],
                     'proj' if cfg['projection'] else 'noproj')

    def run(self, st, niter, callback=None):
        odl().solvers.steepest_descent(self.f, st['x'], line_search=self.step,
                                       maxiter=niter, tol=0,
                                       projection=self.projection,
                                       callback=callback)


class Pdhg(Instance):
    name = 'pdhg'
    state_keys = ('x', 'x_relax', 'y')

    def __init__(self, cfg):
        Instance.__init__(self, cfg)
        self.X = P.build_space(cfg['X'])
        self.L = P.build_op(cfg['L'], self.X)
        P.adjoint_filter(self.L, cfg['seed'])
        self.f, _ = _func(cfg, 'f', self.X)
        self.g, _ = _func(cfg, 'g', self.L.range)
        nrm = P.op_norm_true(self.L)
        if nrm == 0:
            raise Reject('zero operator')
        self.nrm = nrm
        # tau * sigma * ||L||^2 = tau_frac^2 < 1
        self.tau = cfg['tau_frac'] / nrm * cfg['ratio']
        self.sigma = cfg['tau_frac'] / nrm / cfg['ratio']
        self.theta = cfg['theta']
        g = np_rng('x0', cfg['seed'])
        x0 = P.rand_elem(self.X, g)
        self.state0 = {'x': x0, 'x_relax': x0.copy(), 'y': self.L.range.zero()}
        self.tags = (P.func_tag(cfg['f']), P.func_tag(cfg['g']),
                     P.op_tag(cfg['L']), cfg['X']['kind'], cfg['theta'])

    def run(self, st, niter, callback=None):
        odl().solvers.pdhg(st['x'], self.f, self.g, self.L, niter,
                           tau=self.tau, sigma=self.sigma, theta=self.theta,
                           x_relax=st['x_relax'], y=st['y'], callback=callback)

    def run_plain(self, st, niter, callback=None):
        odl().solvers.pdhg(st['x'], self.f, self.g, self.L, niter,
                           tau=self.tau, sigma=self.sigma, theta=self.theta,
                           callback=callback)


class _MultiOp(Instance):
    def __init__(self, cfg):
        Instance.__init__(self, cfg)
        self.X = P.build_space(cfg['X'])
        self.Ls = [P.build_op(c, self.X) for c in cfg['Ls']]
        for i, L in enumerate(self.Ls):
            P.adjoint_filter(L, cfg['seed'] + i)
        self.f, _ = _func(cfg, 'f', self.X)
        self.gs = [_func(cfg, 'g%d' % i, L.range)[0]
                   for i, L in enumerate(self.Ls)]
        self.norms = [P.op_norm_true(L) for L in self.Ls]
        if min(self.norms) == 0:
            raise Reject('zero operator')
        g = np_rng('x0', cfg['seed'])
        self.state0 = {'x': P.rand_elem(self.X, g)}
        self.tags = (P.func_tag(cfg['f']),
                     ','.join(P.func_tag(cfg['g%d' % i])
                              for i in range(len(self.Ls))),
                     ','.join(P.op_tag(c) for c in cfg['Ls']), cfg['X']['kind'])


class DouglasRachford(_MultiOp):
    name = 'douglas_rachford'

    def __init__(self, cfg):
        _MultiOp.__init__(self, cfg)
        # tau * sum(sigma_i ||L_i||^2) < 4
        m = len(self.Ls)
        self.tau = 1.0 / sum(self.norms)
        self.sigma = [cfg['frac'] * 4.0 / (m * self.tau * n ** 2)
                      for n in self.norms]
        self.lam = cfg['lam']

    def run(self, st, niter, callback=None):
        odl().solvers.douglas_rachford_pd(st['x'], self.f, self.gs, self.Ls,
                                          niter, tau=self.tau,
                                          sigma=self.sigma, lam=self.lam,
                                          callback=callback)


class ForwardBackward(_MultiOp):
    name = 'forward_backward'

    def __init__(self, cfg):
        _MultiOp.__init__(self, cfg)
        self.h, _ = _func(cfg, 'h', self.X, ('l2sq', 'l2sq_trans', 'huber',
                                             'zero', 'quadpert_smooth'))
        beta = P.true_lipschitz(cfg['h'])
        if not np.isfinite(beta):
            raise Reject('h without Lipschitz constant')
        # 2 * min(1/tau, 1/sigma_i) * min(eta, rho) * sqrt(1 - tau sum sigma_i |L_i|^2) > 1
        # choose tau sum(sigma_i |L_i|^2) = frac^2 * 0.5 and steps small vs. beta
        m = len(self.Ls)
        s2 = sum(n ** 2 for n in self.norms)
        base = cfg['frac'] * 0.7 / np.sqrt(s2)
        if beta > 0:
            base = min(base, cfg['frac'] * 0.5 / beta)
        self.tau = base
        self.sigma = [base] * m

    def run(self, st, niter, callback=None):
        odl().solvers.forward_backward_pd(st['x'], self.f, self.gs, self.Ls,
                                          self.h, self.tau, self.sigma, niter,
                                          callback=callback)


class CG(Instance):
    name = 'cg'

    def __init__(self, cfg):
        Instance.__init__(self, cfg)
        o = odl()
        self.X = P.build_space(cfg['X'])
        A = P.build_op(cfg['L'], self.X)
        P.adjoint_filter(A, cfg['seed'])
        self.A = A
        self.B = A.adjoint * A + cfg['shift'] * o.IdentityOperator(self.X)
        if cfg['L']['kind'] == 'viewid':
            # the SPD operator itself hands back its argument (an expression
            # node would hide that behind its own fresh result)
            self.B = A
        g = np_rng('x0', cfg['seed'])
        self.xtrue = P.rand_elem(self.X, g)
        self.rhs = self.B(self.xtrue)
        self.state0 = {'x': P.rand_elem(self.X, g)}
        self.tags = (P.op_tag(cfg['L']), cfg['X']['kind'], cfg['shift'])

    def run(self, st, niter, callback=None):
        odl().solvers.conjugate_gradient(self.B, st['x'], self.rhs, niter,
                                         callback=callback)


class DCA(Instance):
    name = 'prox_dca'

    def __init__(self, cfg):
        Instance.__init__(self, cfg)
        self.X = P.build_space(cfg['X'])
        self.f, _ = _func(cfg, 'f', self.X)
        self.g, _ = _func(cfg, 'g', self.X, ('l2sq', 'l2sq_trans', 'huber',
                                             'quadpert_smooth'))
        lip = P.true_lipschitz(cfg['g'])
        self.gamma = cfg['gamma_frac'] / (lip + 1.0)
        g = np_rng('x0', cfg['seed'])
        self.state0 = {'x': P.rand_elem(self.X, g)}
        self.tags = (P.func_tag(cfg['f']), P.func_tag(cfg['g']), cfg['X']['kind'])

    def run(self, st, niter, callback=None):
        odl().solvers.prox_dca(st['x'], self.f, self.g, niter, self.gamma,
                               callback=callback)


class PlainDCA(Instance):
    """dca: x <- grad f*(grad g(x)); f = a/2 |.|^2 shifted so f* is smooth."""
    name = 'dca'

    def __init__(self, cfg):
        Instance.__init__(self, cfg)
        self.X = P.build_space(cfg['X'])
        self.f, _ = _func(cfg, 'f', self.X, ('l2sq', 'l2sq_trans'))
        self.g, _ = _func(cfg, 'g', self.X, ('huber', 'l2sq', 'l2sq_trans'))
        g = np_rng('x0', cfg['seed'])
        self.state0 = {'x': P.rand_elem(self.X, g)}
        self.tags = (P.func_tag(cfg['f']), P.func_tag(cfg['g']), cfg['X']['kind'])

    def run(self, st, niter, callback=None):
        odl().solvers.dca(st['x'], self.f, self.g, niter, callback=callback)


class SmoothSolver(Instance):
    """Callback-count workloads for the smooth solvers on a least-squares
    objective 0.5|Ax-b|^2 (+ small Tikhonov term)."""

    def __init__(self, cfg):
        Instance.__init__(self, cfg)
        o = odl()
        self.name = cfg['solver']
        self.X = P.build_space(cfg['X'])
        self.A = P.build_op(cfg['L'], self.X)
        P.adjoint_filter(self.A, cfg['seed'])
        g = np_rng('x0', cfg['seed'])
        self.b = P.rand_elem(self.A.range, g)
        F = o.solvers
        self.f = (F.L2NormSquared(self.A.range).translated(self.b) * self.A +
                  0.1 * F.L2NormSquared(self.X))
        nrm = P.op_norm_true(self.A)
        self.step = 0.1 / (2 * nrm ** 2 + 0.2)
        self.state0 = {'x': P.rand_elem(self.X, g)}
        self.opt = cfg['opt']
        self.tags = (P.op_tag(cfg['L']), cfg['X']['kind'], cfg['opt'])

    def run(self, st, niter, callback=None):
        S = odl().solvers
        x = st['x']
        if self.name == 'gauss_newton':
            from odl.solvers.iterative.iterative import exp_zero_seq
            S.gauss_newton(self.A, x, self.b, niter,
                           zero_seq=exp_zero_seq(2.0), callback=callback)
        elif self.name == 'newton':
            S.newtons_method(self.f, x, line_search=0.5, maxiter=niter, tol=0,
                             callback=callback)
        elif self.name == 'bfgs':
            S.bfgs_method(self.f, x, line_search=self.step, maxiter=niter,
                          tol=0, num_store=[None, 1, 3][self.opt],
                          callback=callback)
        elif self.name == 'broyden':
            S.broydens_method(self.f, x, line_search=self.step,
                              impl=['first', 'second', 'first'][self.opt],
                              maxiter=niter, tol=0, callback=callback)
        elif self.name == 'nlcg':
            S.conjugate_gradient_nonlinear(
                self.f, x, line_search=self.step, maxiter=niter, nreset=0,
                tol=0, beta_method=['FR', 'PR', 'HS'][self.opt],
                callback=callback)
        elif self.name == 'adam':
            S.adam(self.f, x, maxiter=niter, tol=0, callback=callback)
        else:
            raise ValueError(self.name)


CLASSES = {
    'admm': Admm, 'adupdates': AdUpdates, 'doubleprox_dc': DoubleProxDC,
    'landweber': Landweber, 'cg_normal': CGNormal, 'kaczmarz': Kaczmarz,
    'proximal_gradient': ProxGrad, 'accelerated_proximal_gradient': AccProxGrad,
    'mlem': Mlem, 'osmlem': OSMlem, 'steepest_descent': SteepestDescent,
    'pdhg': Pdhg, 'douglas_rachford': DouglasRachford,
    'forward_backward': ForwardBackward, 'cg': CG, 'prox_dca': DCA,
    'dca': PlainDCA,
    'gauss_newton': SmoothSolver, 'newton': SmoothSolver, 'bfgs': SmoothSolver,
    'broyden': SmoothSolver, 'nlcg': SmoothSolver, 'adam': SmoothSolver,
}


def build(cfg):
    try:
        return CLASSES[cfg['solver']](cfg)
    except Reject:
        raise
