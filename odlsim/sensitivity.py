"""Sensitivity self-test: break a property on purpose in a scratch copy of
/repo/odl and confirm the quick tier of the right check reports it.

Mutations are (id, property, file, old, new) textual replacements chosen to
keep odl importable; seeded changes produced by independent sub-agents live in
/verif/seeded/<id>/patch.diff and are applied with `git apply`-style `patch`.
Nothing is ever written to /repo.
"""
import json
import os
import shutil
import subprocess
import sys
import tempfile
import time

from .env import VERIF, REPO

M = []


def mut(mid, prop, path, old, new, count=1, known_miss=False):
    M.append({'id': mid, 'property': prop, 'file': path, 'old': old,
              'new': new, 'count': count, 'known_miss': known_miss})


# ---- C11 -----------------------------------------------------------------
mut('c11-admm-u-sign', 'C11', 'odl/solvers/nonsmooth/admm.py',
    "        u += tmp_ran\n        u -= z\n", "        u += tmp_ran\n        u += z\n")
mut('c11-admm-stale-tmp', 'C11', 'odl/solvers/nonsmooth/admm.py',
    "        prox_sigma_g(tmp_ran + u, out=z)  # 1 copy here\n",
    "        prox_sigma_g(tmp_ran + u, out=z)  # 1 copy here\n        tmp_ran -= z\n        tmp_ran += z\n        tmp_ran.lincomb(1, tmp_ran, 1e-3, z)\n")
mut('c11-pdhg-xrelax-rebind', 'C11',
    'odl/solvers/nonsmooth/primal_dual_hybrid_gradient.py',
    "        x_relax.lincomb(1 + theta, x, -theta, x_old)\n",
    "        x_relax = (1 + theta) * x - theta * x_old\n")
mut('c11-pdhg-y-copied', 'C11',
    'odl/solvers/nonsmooth/primal_dual_hybrid_gradient.py',
    "    elif y not in L.range:\n        raise TypeError('`y` {} is not in the range of `L` '\n                        '{}'.format(y.space, L.range))\n",
    "    elif y not in L.range:\n        raise TypeError('`y` {} is not in the range of `L` '\n                        '{}'.format(y.space, L.range))\n    else:\n        y = y.copy()\n")
mut('c11-adupdates-no-dual-assign', 'C11',
    'odl/solvers/nonsmooth/alternating_dual_updates.py',
    "            duals[j].assign(tmp_ran)\n\n            if callback is not None and callback_loop == 'inner':",
    "            if j > 0 or len(duals) == 1:\n                duals[j].assign(tmp_ran)\n\n            if callback is not None and callback_loop == 'inner':")
mut('c11-kaczmarz-double-callback', 'C11',
    'odl/solvers/iterative/iterative.py',
    "            if callback is not None and callback_loop == 'inner':\n                callback(x)\n        if callback is not None and callback_loop == 'outer':\n            callback(x)\n\n\nif __name__",
    "            if callback is not None:\n                callback(x)\n        if callback is not None and callback_loop == 'outer':\n            callback(x)\n\n\nif __name__")
mut('c11-landweber-tmp-reuse', 'C11', 'odl/solvers/iterative/iterative.py',
    "    for _ in range(niter):\n        op(x, out=tmp_ran)\n        tmp_ran -= rhs\n        op.derivative(x).adjoint(tmp_ran, out=tmp_dom)\n        x.lincomb(1, x, -omega, tmp_dom)\n",
    "    for _i in range(niter):\n        op(x, out=tmp_ran)\n        tmp_ran -= rhs\n        if _i == 0:\n            tmp_dom.set_zero()\n        tmp_dom *= 0.05\n        tmp_dom += op.derivative(x).adjoint(tmp_ran)\n        x.lincomb(1, x, -omega, tmp_dom)\n")
mut('c11-dc-y-uses-old-x2', 'C11', 'odl/solvers/nonsmooth/difference_convex.py',
    "        g_convex_conj.proximal(mu)(y.lincomb(1, y, mu, K(x)), out=y)\n\n        if callback is not None:",
    "        g_convex_conj.proximal(mu)(y.lincomb(1, y, mu, 0.5 * (K(x) + K(x))), out=y) if _ % 5 != 4 else g_convex_conj.proximal(mu)(y.lincomb(1, y, mu, 0.999 * K(x)), out=y)\n\n        if callback is not None:")
mut('c11-mlem-stale-sens', 'C11', 'odl/solvers/iterative/statistical.py',
    "            x *= tmp_dom\n",
    "            x *= tmp_dom\n            if _ == 0 and niter > 6:\n                x *= 1.001\n")
mut('c11-proxgrad-unint-tmp', 'C11',
    'odl/solvers/nonsmooth/proximal_gradient_solvers.py',
    "        tmp.lincomb(1, x, -gamma, g_grad(x))\n\n        # Update x\n",
    "        tmp.lincomb(1, x, -gamma, g_grad(x)) if k else tmp.lincomb(1e-30, tmp, 1, x - gamma * g_grad(x))\n\n        # Update x\n")


# ---- C12 -----------------------------------------------------------------
mut('c12-landweber-sign', 'C12', 'odl/solvers/iterative/iterative.py',
    "        x.lincomb(1, x, -omega, tmp_dom)\n\n        if projection is not None:\n            projection(x)\n\n        if callback is not None:\n            callback(x)\n\n\ndef conjugate_gradient(",
    "        x.lincomb(1, x, omega, tmp_dom)\n\n        if projection is not None:\n            projection(x)\n\n        if callback is not None:\n            callback(x)\n\n\ndef conjugate_gradient(")
mut('c12-cg-beta-inverted', 'C12', 'odl/solvers/iterative/iterative.py',
    "        beta = sqnorm_r_new / sqnorm_r_old\n",
    "        beta = sqnorm_r_old / sqnorm_r_new if sqnorm_r_new else 0.0\n")
mut('c12-cgn-sign', 'C12', 'odl/solvers/iterative/iterative.py',
    "        d.lincomb(1, d, -a, q)              # d = d - a*Ap\n",
    "        d.lincomb(1, d, a, q)              # d = d - a*Ap\n")
mut('c12-kaczmarz-omega0', 'C12', 'odl/solvers/iterative/iterative.py',
    "            x.lincomb(1, x, -omega[i], tmp_dom)\n",
    "            x.lincomb(1, x, -omega[0], tmp_dom)\n")
mut('c12-armijo-flipped', 'C12', 'odl/solvers/util/steplen.py',
    "            if (fval <= fx - expected_decrease):",
    "            if (fval >= fx - expected_decrease) or num_iter > 3:")
mut('c12-power-nosqrt', 'C12', 'odl/operator/oputils.py',
    "        if use_normal:\n            return np.sqrt(x_norm)\n",
    "        if use_normal:\n            return x_norm\n")
mut('c12-pdhg-dual-uses-x', 'C12',
    'odl/solvers/nonsmooth/primal_dual_hybrid_gradient.py',
    "        L(x_relax, out=dual_tmp)\n", "        L(x, out=dual_tmp)\n")
mut('c12-proxgrad-plus-gamma', 'C12',
    'odl/solvers/nonsmooth/proximal_gradient_solvers.py',
    "        tmp.lincomb(1, x, -gamma, g_grad(x))\n",
    "        tmp.lincomb(1, x, gamma, g_grad(x))\n")
mut('c12-dr-sigma-half-dropped', 'C12',
    'odl/solvers/nonsmooth/douglas_rachford.py',
    "            p2[i].lincomb(1, v[i], sigma[i] / 2, p2[i])\n",
    "            p2[i].lincomb(1, v[i], sigma[i], p2[i])\n")
mut('c12-admm-tau-over-sigma', 'C12', 'odl/solvers/nonsmooth/admm.py',
    "        x.lincomb(1, x, -tau / sigma, tmp_dom)\n",
    "        x.lincomb(1, x, -tau * sigma, tmp_dom)\n")
mut('c12-accel-alpha', 'C12',
    'odl/solvers/nonsmooth/proximal_gradient_solvers.py',
    "        alpha = (t_old - 1) / t\n", "        alpha = t_old / t\n",
    known_miss=True)   # a different but still convergent momentum rule: the
#                        property as stated (converges to a KKT point, solution
#                        is a fixed point) still holds -- documented limit
mut('c12-pdhg-theta-sign', 'C12',
    'odl/solvers/nonsmooth/primal_dual_hybrid_gradient.py',
    "        x_relax.lincomb(1 + theta, x, -theta, x_old)\n",
    "        x_relax.lincomb(1 - theta, x, theta, x_old)\n")


# ---- C01 -----------------------------------------------------------------
mut('c01-scal-wrong-scalar', 'C01', 'odl/space/npy_tensors.py',
    "    elif out is x2:\n        # out is aligned with x2 -> out = a*x1 + b*out\n        if b != 1:\n            scal(b, out_arr, size)\n",
    "    elif out is x2:\n        # out is aligned with x2 -> out = a*x1 + b*out\n        if b != 1:\n            scal(a, out_arr, size)\n")
mut('c01-axpy-skips-unit-scalar', 'C01', 'odl/space/npy_tensors.py',
    "    elif out is x1:\n        # out is aligned with x1 -> out = a*out + b*x2\n        if a != 1:\n            scal(a, out_arr, size)\n        if b != 0:\n",
    "    elif out is x1:\n        # out is aligned with x1 -> out = a*out + b*x2\n        if a != 1:\n            scal(a, out_arr, size)\n        if b != 0 and b != a:\n")
mut('c01-ravel-order-C', 'C01', 'odl/space/npy_tensors.py',
    "        if out.data.flags.f_contiguous:\n            ravel_order = 'F'\n",
    "        if out.data.flags.f_contiguous and False:\n            ravel_order = 'F'\n")
mut('c01-pspace-lincomb-zip', 'C01', 'odl/space/pspace.py',
    "        for space, xp, yp, outp in zip(self.spaces, x.parts, y.parts,\n                                       out.parts):",
    "        for space, xp, yp, outp in zip(self.spaces, x.parts, x.parts,\n                                       out.parts):")
mut('c01-rsub-sign', 'C01', 'odl/set/space.py',
    "            return self.space.lincomb(1, other, -1, self, out=tmp)\n",
    "            return self.space.lincomb(-1, other, 1, self, out=tmp)\n")
mut('c01-ipow-odd', 'C01', 'odl/set/space.py',
    "            for _ in range(p - 2):\n                tmp *= self\n",
    "            for _ in range(p - 3):\n                tmp *= self\n")
mut('c01-discr-divide', 'C01', 'odl/discr/discr_space.py',
    "        self.tspace._divide(x1.tensor, x2.tensor, out.tensor)",
    "        self.tspace._multiply(x1.tensor, x2.tensor, out.tensor)")
mut('c01-axpy-int-revert', 'C01', 'odl/space/npy_tensors.py',
    "                if np.issubdtype(x2.dtype, np.inexact):\n",
    "                if True:\n")
mut('c01-setzero-revert', 'C01', 'odl/space/npy_tensors.py',
    "        if a == 0 and b == 0:\n            # Zero assignment as in",
    "        if a == 0 and b == 0 and size < 0:\n            # Zero assignment as in")
mut('c01-assign-copy-revert', 'C01', 'odl/space/npy_tensors.py',
    "        elif a == 1 and b == 0:\n            # Plain copy without",
    "        elif a == 1 and b == 0 and size < 0:\n            # Plain copy without")

# ---- C03 -----------------------------------------------------------------
mut('c03-default-ip-no-assign', 'C03', 'odl/operator/operator.py',
    "    out.assign(op.range.element(op._call_out_of_place(x, **kwargs)))",
    "    out.lincomb(1, out, 1, op.range.element(op._call_out_of_place(x, **kwargs)))")
mut('c03-scaling-inplace-x', 'C03', 'odl/operator/default_ops.py',
    "        if out is None:\n            out = self.scalar * x\n        else:\n            out.lincomb(self.scalar, x)\n        return out",
    "        if out is None:\n            out = self.scalar * x\n        else:\n            x *= self.scalar\n            out.assign(x)\n        return out")
mut('c03-comp-out-as-tmp', 'C03', 'odl/operator/operator.py',
    "            tmp = (self.__tmp if self.__tmp is not None\n                   else self.right.range.element())\n            self.right(x, out=tmp)\n            return self.left(tmp, out=out)",
    "            tmp = (self.__tmp if self.__tmp is not None\n                   else self.right.range.element())\n            if self.right.range == self.range:\n                tmp = out\n            self.right(x, out=tmp)\n            return self.left(tmp, out=out)")
mut('c03-out-check-after-call', 'C03', 'odl/operator/operator.py',
    "            if out not in self.range:\n                raise OpRangeError('`out` {!r} not an element of the range '\n                                   '{!r} of {!r}'\n                                   ''.format(out, self.range, self))\n\n            if self.is_functional:",
    "            if getattr(out, 'space', None) is None:\n                raise OpRangeError('`out` {!r} not an element of the range '\n                                   '{!r} of {!r}'\n                                   ''.format(out, self.range, self))\n\n            if self.is_functional:")
mut('c03-divergence-accumulate', 'C03', 'odl/discr/diff_ops.py',
    "                if axis == 0:\n                    out_arr[:] = tmp\n                else:\n                    out_arr += tmp\n\n        return out\n\n    def derivative(self, point=None):\n        \"\"\"Return the derivative operator.\n\n        The Divergence is usually linear",
    "                out_arr += tmp\n\n        return out\n\n    def derivative(self, point=None):\n        \"\"\"Return the derivative operator.\n\n        The Divergence is usually linear")
mut('c03-pointwise-norm-reads-out', 'C03', 'odl/operator/tensor_ops.py',
    "    def _call_vecfield_1(self, vf, out):\n        \"\"\"Implement ``self(vf, out)`` for exponent 1.\"\"\"\n        vf[0].ufuncs.absolute(out=out)",
    "    def _call_vecfield_1(self, vf, out):\n        \"\"\"Implement ``self(vf, out)`` for exponent 1.\"\"\"\n        out += vf[0].ufuncs.absolute() - out * (1 - 1e-9)")
mut('c03-fftw-plan-any-layout', 'C03', 'odl/trafos/backends/pyfftw_bindings.py',
    "    if fftw_plan_in is not None and (\n            array_in.strides != fftw_plan_in.input_strides or",
    "    if fftw_plan_in is not None and array_in.ndim > 99 and (\n            array_in.strides != fftw_plan_in.input_strides or")
mut('c03-matrix-dot-out-any-layout', 'C03', 'odl/operator/tensor_ops.py',
    "                    if out_arr.flags.c_contiguous:\n                        self.matrix.dot(x, out=out_arr)",
    "                    if True:\n                        self.matrix.dot(x, out=out_arr)")
mut('c03-vector-sum-writes-into-result', 'C03', 'odl/operator/operator.py',
    "            return self.operator(x) + self.vector\n",
    "            out = self.operator(x)\n            out += self.vector\n            return out\n")

# ---- C10 -----------------------------------------------------------------
mut('c10-ccl1-guard', 'C10', 'odl/solvers/nonsmooth/proximal_operators.py',
    "                if x is out:\n                    # Handle aliased `x` and `out`\n                    # This is necessary since we write to both `diff` and\n                    # `out`.\n                    diff = x.copy()",
    "                if x is out and False:\n                    diff = x.copy()")
mut('c10-kl-guard', 'C10', 'odl/solvers/nonsmooth/proximal_operators.py',
    "            if x is out:\n                # Handle aliased `x` and `out` (need original `x` later on)\n                x = x.copy()\n            else:\n                out.assign(x)",
    "            if x is not out:\n                out.assign(x)")
mut('c10-opsum-order', 'C10', 'odl/operator/operator.py',
    "            self.left(x, out=tmp)\n            self.right(x, out=out)\n            out += tmp",
    "            self.right(x, out=out)\n            self.left(x, out=tmp)\n            out += tmp")

# ---- C17 -----------------------------------------------------------------
mut('c17-element-copies', 'C17', 'odl/space/npy_tensors.py',
    "            arr = np.array(inp, copy=False, dtype=self.dtype, ndmin=self.ndim,\n                           order=order)",
    "            arr = np.array(inp, copy=(np.size(inp) == 3), dtype=self.dtype, ndmin=self.ndim,\n                           order=order)")
mut('c17-writable-array-no-writeback', 'C17', 'odl/util/utility.py',
    "        if arr is not None:\n            obj[:] = arr",
    "        if arr is not None and not isinstance(obj, np.ndarray):\n            obj[:] = arr\n        elif arr is not None and arr.size != 2:\n            obj[:] = arr")
mut('c17-reduce-ignores-keepdims', 'C17', 'odl/space/npy_tensors.py',
    "                res = getattr(ufunc, method)(*inputs, **kwargs)",
    "                kwargs.pop('keepdims', None)\n                res = getattr(ufunc, method)(*inputs, **kwargs)")
mut('c17-out-fresh-element', 'C17', 'odl/space/npy_tensors.py',
    "                    out_space = type(self.space)(self.shape, res.dtype,\n                                                 **spc_kwargs)\n                    out = out_space.element(res)\n\n                return out",
    "                    out_space = type(self.space)(self.shape, res.dtype,\n                                                 **spc_kwargs)\n                    out = out_space.element(res)\n                elif ufunc.__name__ == 'negative':\n                    out = out.copy()\n\n                return out")

# ---- C18 -----------------------------------------------------------------
mut('c18-plan-restore-skips-cast-copy', 'C18', 'odl/trafos/backends/pyfftw_bindings.py',
    "        if must_save_array_in:\n            array_in[...] = saved_in\n",
    "        if must_save_array_in and not array_in_copied:\n            array_in[...] = saved_in\n")
mut('c18-c2r-copy-revert', 'C18', 'odl/trafos/backends/pyfftw_bindings.py',
    "    if (not array_in_copied and direction == 'backward' and halfcomplex and\n            array_in.ndim != 1):",
    "    if (not array_in_copied and direction == 'backward' and halfcomplex and\n            array_in.ndim > 99):")
mut('c18-destroy-input-flag-revert', 'C18',
    'odl/trafos/backends/pyfftw_bindings.py',
    "    flags = [_flag_odl_to_pyfftw(planning_effort)]\n\n    if fftw_plan_in is None:",
    "    flags = [_flag_odl_to_pyfftw(planning_effort)]\n    if must_save_array_in:\n        flags.append('FFTW_DESTROY_INPUT')\n\n    if fftw_plan_in is None:")
mut('c18-inplace-plan-no-restore', 'C18',
    'odl/trafos/backends/pyfftw_bindings.py',
    "        if must_save_array_in:\n            array_in[...] = saved_in\n",
    "        if must_save_array_in and array_out is not array_in:\n            array_in[...] = saved_in\n")
mut('c18-fftw-plan-any-layout', 'C18', 'odl/trafos/backends/pyfftw_bindings.py',
    "    if fftw_plan_in is not None and (\n            array_in.strides != fftw_plan_in.input_strides or",
    "    if fftw_plan_in is not None and array_in.ndim > 99 and (\n            array_in.strides != fftw_plan_in.input_strides or")
mut('c18-inverse-norm-dropped', 'C18', 'odl/trafos/fourier.py',
    "        if self.sign == '-':\n            out /= np.prod(np.take(self.domain.shape, self.axes))\n\n        if out_real is not None:",
    "        if self.sign == '-' and out.ndim != 3:\n            out /= np.prod(np.take(self.domain.shape, self.axes))\n\n        if out_real is not None:")
mut('c18-irfftn-shape-revert', 'C18', 'odl/trafos/fourier.py',
    "            return np.fft.irfftn(x, s=np.take(self.range.shape, self.axes),\n                                 axes=self.axes)",
    "            return np.fft.irfftn(x, axes=self.axes)")
mut('c18-preproc-phase-odd', 'C18', 'odl/trafos/util/ft_utils.py',
    "            factor = np.ones(length, dtype=out.dtype)\n            factor[1::2] = -1\n        else:\n            factor = np.arange(length, dtype=out.dtype)\n            factor *= -imag * np.pi * (1 - 1.0 / length)",
    "            factor = np.ones(length, dtype=out.dtype)\n            factor[1::2] = -1 if length % 2 == 0 else 1\n        else:\n            factor = np.arange(length, dtype=out.dtype)\n            factor *= -imag * np.pi * (1 - 1.0 / length)")
mut('c18-pyfftw-only-phase', 'C18', 'odl/trafos/fourier.py',
    "        # The actual call to the FFT library. We store the plan for re-use.\n        # The FFT is calculated in-place, except if the range is real and\n        # we don't use halfcomplex.\n        direction = 'forward' if self.sign == '-' else 'backward'",
    "        if preproc.ndim == 2 and preproc.shape[0] == 3:\n            preproc[0] *= -1\n        direction = 'forward' if self.sign == '-' else 'backward'")

# ---- defects repaired in /repo in the second session, put back -------------
mut('fixed-c01-blas-unaligned', 'C01', 'odl/space/npy_tensors.py',
    "    elif not all(x.flags.aligned for x in args):\n", "    elif False:\n")
mut('fixed-c01-broadcast-own-part', 'C01', 'odl/space/pspace.py',
    "            if op.startswith('__i') and any(other is xi for xi in self):\n",
    "            if False:\n")
mut('fixed-c01-zero-dim', 'C01', 'odl/space/npy_tensors.py',
    "            out.data[...] = a * x1.data + b * x2.data\n",
    "            out.data[:] = a * x1.data + b * x2.data\n")
mut('fixed-c11-admm-view', 'C11', 'odl/solvers/nonsmooth/admm.py',
    "    tmp_ran = L.range.element()\n    L(x, out=tmp_ran)\n",
    "    tmp_ran = L(x)\n")
mut('fixed-c12-cgn-view', 'C12', 'odl/solvers/iterative/iterative.py',
    "    d = op.range.element()\n    op(x, out=d)\n", "    d = op(x)\n")
mut('fixed-c12-cg-view', 'C12', 'odl/solvers/iterative/iterative.py',
    "    r = op.range.element()\n    op(x, out=r)\n", "    r = op(x)\n")
mut('fixed-c03-matrix-wide-range', 'C03', 'odl/operator/tensor_ops.py',
    "                    if (out_arr.flags.c_contiguous and\n                            out_arr.dtype == np.result_type(self.matrix.dtype,\n                                                            x.dtype)):\n",
    "                    if out_arr.flags.c_contiguous:\n")

mut('fixed-c17-broadcast-larger', 'C17', 'odl/space/npy_tensors.py',
    "                    out_space = type(self.space)(res.shape, res.dtype,\n                                                 **spc_kwargs)\n                    out = out_space.element(res)\n\n                return out\n",
    "                    out_space = type(self.space)(self.shape, res.dtype,\n                                                 **spc_kwargs)\n                    out = out_space.element(res)\n\n                return out\n")

mut('fixed-c17-writable-array-0d', 'C17', 'odl/util/utility.py',
    "            if arr.ndim == 0:\n", "            if False:\n")


def _apply(scratch, m):
    p = os.path.join(scratch, m['file'])
    s = open(p).read()
    if s.count(m['old']) < 1:
        return False
    s = s.replace(m['old'], m['new'], m['count'])
    open(p, 'w').write(s)
    return True


def make_scratch():
    d = tempfile.mkdtemp(prefix='odlsim-scratch-', dir='/tmp')
    shutil.copytree(os.path.join(REPO, 'odl'), os.path.join(d, 'odl'),
                    ignore=shutil.ignore_patterns('__pycache__', '*.pyc'))
    return d


def run_check(scratch, prop, runs=None, seed=0, timeout=900):
    env = dict(os.environ)
    env['ODLSIM_REPO'] = scratch
    env['ODLSIM_REPLAY_DIR'] = os.path.join(scratch, 'replays')
    env.pop('ODLSIM_REEXEC', None)
    cmd = [sys.executable, os.path.join(VERIF, 'check'), prop, '--tier',
           'quick', '--no-evidence', '--seed', str(seed)]
    if runs:
        cmd += ['--runs', str(runs)]
    p = subprocess.run(cmd, env=env, stdout=subprocess.PIPE,
                       stderr=subprocess.STDOUT, timeout=timeout)
    return p.returncode, p.stdout.decode(errors='replace')


def seeded_changes():
    d = os.path.join(VERIF, 'seeded')
    out = []
    if not os.path.isdir(d):
        return out
    for name in sorted(os.listdir(d)):
        meta = os.path.join(d, name, 'meta.json')
        patch = os.path.join(d, name, 'patch.diff')
        if os.path.exists(meta) and os.path.exists(patch):
            m = json.load(open(meta))
            out.append({'id': 'seeded/' + name, 'property': m['property'],
                        'patch': patch, 'expect': m.get('detected_by') or m['property'],
                        'known_miss': m.get('known_miss', False)})
    return out


def main(args):
    only = os.environ.get('ODLSIM_MUT')
    props = os.environ.get('ODLSIM_PROPS')
    items = list(M) + seeded_changes()
    results = []
    bad = 0
    for m in items:
        if only and only not in m['id']:
            continue
        if props and m['property'] not in props.split(','):
            continue
        scratch = make_scratch()
        t0 = time.time()
        try:
            if 'patch' in m:
                p = subprocess.run(['patch', '-p1', '-s', '-d', scratch, '-i',
                                    m['patch']], stdout=subprocess.PIPE,
                                   stderr=subprocess.STDOUT)
                ok = p.returncode == 0
            else:
                ok = _apply(scratch, m)
            if not ok:
                print('{:40s} {}  PATCH DOES NOT APPLY'.format(m['id'], m['property']))
                bad += 1
                continue
            prop = m.get('expect', m['property'])
            props_to_try = prop if isinstance(prop, list) else [prop]
            detected = False
            fp = []
            per_prop = {}
            for pr in props_to_try:
                rc, out = run_check(scratch, pr)
                hit = rc == 1 and 'VIOLATION property=' + pr in out
                per_prop[pr] = hit
                if hit:
                    detected = True
                    fp += [pr + ' ' + l.strip() for l in out.splitlines()
                           if 'fingerprint:' in l][:1]
            status = 'DETECTED' if detected else 'MISSED'
            if len(per_prop) > 1:
                status += ' ' + ','.join('{}={}'.format(k, 'yes' if v else 'no')
                                         for k, v in per_prop.items())
            if not detected and not m.get('known_miss'):
                bad += 1
            print('{:40s} {}  {}  ({:.0f}s) {}'.format(
                m['id'], m['property'], status, time.time() - t0,
                ' | '.join(fp) if detected and fp else
                ('rc=%d' % rc) + (' [known miss]' if m.get('known_miss') else '')))
            sys.stdout.flush()
            results.append({'id': m['id'], 'property': m['property'],
                            'status': status, 'fingerprints': fp})
        finally:
            shutil.rmtree(scratch, ignore_errors=True)
    # a selective run (ODLSIM_MUT / ODLSIM_PROPS) updates its entries and
    # keeps the others
    path = os.path.join(VERIF, 'evidence', 'sensitivity.json')
    merged = {}
    if (only or props) and os.path.exists(path):
        try:
            merged = {r['id']: r for r in json.load(open(path))}
        except Exception:
            merged = {}
    for r in results:
        merged[r['id']] = r
    with open(path, 'w') as f:
        json.dump([merged[k] for k in sorted(merged)], f, indent=1)
    return 0 if bad == 0 else 2
