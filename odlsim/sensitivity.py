"""Sensitivity self-test: break a property on purpose in a scratch copy of
/repo/odl and confirm the quick tier of the right check reports it.

Mutations are (id, property, file, old, new) textual replacements chosen to
keep odl importable; seeded changes produced by independent sub-agents live in
/verif/seeded/<id>/patch.diff and are applied with `git apply`-style `patch`.
Nothing is ever written to /repo.
"""
import json
import os
import shutil
import subprocess
import sys
import tempfile
import time

from .env import VERIF, REPO

M = []


def mut(mid, prop, path, old, new, count=1, known_miss=False):
    M.append({'id': mid, 'property': prop, 'file': path, 'old': old,
              'new': new, 'count': count, 'known_miss': known_miss})


# ---- C11 -----------------------------------------------------------------
mut('c11-admm-u-sign', 'C11', 'odl/solvers/nonsmooth/admm.py',
    "        u += tmp_ran\n        u -= z\n", "        u += tmp_ran\n        u += z\n")
mut('c11-admm-stale-tmp', 'C11', 'odl/solvers/nonsmooth/admm.py',
    "        prox_sigma_g(tmp_ran + u, out=z)  # 1 copy here\n",
    "        prox_sigma_g(tmp_ran + u, out=z)  # 1 copy here\n        tmp_ran -= z\n        tmp_ran += z\n        tmp_ran.lincomb(1, tmp_ran, 1e-3, z)\n")
mut('c11-pdhg-xrelax-rebind', 'C11',
    'odl/solvers/nonsmooth/primal_dual_hybrid_gradient.py',
    "        x_relax.lincomb(1 + theta, x, -theta, x_old)\n",
    "        x_relax = (1 + theta) * x - theta * x_old\n")
mut('c11-pdhg-y-copied', 'C11',
    'odl/solvers/nonsmooth/primal_dual_hybrid_gradient.py',
    "    elif y not in L.range:\n        raise TypeError('`y` {} is not in the range of `L` '\n                        '{}'.format(y.space, L.range))\n",
    "    elif y not in L.range:\n        raise TypeError('`y` {} is not in the range of `L` '\n                        '{}'.format(y.space, L.range))\n    else:\n        y = y.copy()\n")
mut('c11-adupdates-no-dual-assign', 'C11',
    'odl/solvers/nonsmooth/alternating_dual_updates.py',
    "            duals[j].assign(tmp_ran)\n\n            if callback is not None and callback_loop == 'inner':",
    "            if j > 0 or len(duals) == 1:\n                duals[j].assign(tmp_ran)\n\n            if callback is not None and callback_loop == 'inner':")
mut('c11-kaczmarz-double-callback', 'C11',
    'odl/solvers/iterative/iterative.py',
    "            if callback is not None and callback_loop == 'inner':\n                callback(x)\n        if callback is not None and callback_loop == 'outer':\n            callback(x)\n\n\nif __name__",
    "            if callback is not None:\n                callback(x)\n        if callback is not None and callback_loop == 'outer':\n            callback(x)\n\n\nif __name__")
mut('c11-landweber-tmp-reuse', 'C11', 'odl/solvers/iterative/iterative.py',
    "    for _ in range(niter):\n        op(x, out=tmp_ran)\n        tmp_ran -= rhs\n        op.derivative(x).adjoint(tmp_ran, out=tmp_dom)\n        x.lincomb(1, x, -omega, tmp_dom)\n",
    "    for _i in range(niter):\n        op(x, out=tmp_ran)\n        tmp_ran -= rhs\n        if _i == 0:\n            tmp_dom.set_zero()\n        tmp_dom *= 0.05\n        tmp_dom += op.derivative(x).adjoint(tmp_ran)\n        x.lincomb(1, x, -omega, tmp_dom)\n")
mut('c11-dc-y-uses-old-x2', 'C11', 'odl/solvers/nonsmooth/difference_convex.py',
    "        g_convex_conj.proximal(mu)(y.lincomb(1, y, mu, K(x)), out=y)\n\n        if callback is not None:",
    "        g_convex_conj.proximal(mu)(y.lincomb(1, y, mu, 0.5 * (K(x) + K(x))), out=y) if _ % 5 != 4 else g_convex_conj.proximal(mu)(y.lincomb(1, y, mu, 0.999 * K(x)), out=y)\n\n        if callback is not None:")
mut('c11-mlem-stale-sens', 'C11', 'odl/solvers/iterative/statistical.py',
    "            x *= tmp_dom\n",
    "            x *= tmp_dom\n            if _ == 0 and niter > 6:\n                x *= 1.001\n")
mut('c11-proxgrad-unint-tmp', 'C11',
    'odl/solvers/nonsmooth/proximal_gradient_solvers.py',
    "        tmp.lincomb(1, x, -gamma, g_grad(x))\n\n        # Update x^{k+1}",
    "        tmp.lincomb(1, x, -gamma, g_grad(x)) if k else tmp.lincomb(1e-30, tmp, 1, x - gamma * g_grad(x))\n\n        # Update x^{k+1}")


# ---- C12 -----------------------------------------------------------------
mut('c12-landweber-sign', 'C12', 'odl/solvers/iterative/iterative.py',
    "        x.lincomb(1, x, -omega, tmp_dom)\n\n        if projection is not None:\n            projection(x)\n\n        if callback is not None:\n            callback(x)\n\n\ndef conjugate_gradient(",
    "        x.lincomb(1, x, omega, tmp_dom)\n\n        if projection is not None:\n            projection(x)\n\n        if callback is not None:\n            callback(x)\n\n\ndef conjugate_gradient(")
mut('c12-cg-beta-inverted', 'C12', 'odl/solvers/iterative/iterative.py',
    "        beta = sqnorm_r_new / sqnorm_r_old\n",
    "        beta = sqnorm_r_old / sqnorm_r_new if sqnorm_r_new else 0.0\n")
mut('c12-cgn-sign', 'C12', 'odl/solvers/iterative/iterative.py',
    "        d.lincomb(1, d, -a, q)              # d = d - a*Ap\n",
    "        d.lincomb(1, d, a, q)              # d = d - a*Ap\n")
mut('c12-kaczmarz-omega0', 'C12', 'odl/solvers/iterative/iterative.py',
    "            x.lincomb(1, x, -omega[i], tmp_dom)\n",
    "            x.lincomb(1, x, -omega[0], tmp_dom)\n")
mut('c12-armijo-flipped', 'C12', 'odl/solvers/util/steplen.py',
    "            if (fval <= fx - expected_decrease):",
    "            if (fval >= fx - expected_decrease) or num_iter > 3:")
mut('c12-power-nosqrt', 'C12', 'odl/operator/oputils.py',
    "        if use_normal:\n            return np.sqrt(x_norm)\n",
    "        if use_normal:\n            return x_norm\n")
mut('c12-pdhg-dual-uses-x', 'C12',
    'odl/solvers/nonsmooth/primal_dual_hybrid_gradient.py',
    "        L(x_relax, out=dual_tmp)\n", "        L(x, out=dual_tmp)\n")
mut('c12-proxgrad-plus-gamma', 'C12',
    'odl/solvers/nonsmooth/proximal_gradient_solvers.py',
    "        tmp.lincomb(1, x, -gamma, g_grad(x))\n",
    "        tmp.lincomb(1, x, gamma, g_grad(x))\n")
mut('c12-dr-sigma-half-dropped', 'C12',
    'odl/solvers/nonsmooth/douglas_rachford.py',
    "            p2[i].lincomb(1, v[i], sigma[i] / 2, p2[i])\n",
    "            p2[i].lincomb(1, v[i], sigma[i], p2[i])\n")
mut('c12-admm-tau-over-sigma', 'C12', 'odl/solvers/nonsmooth/admm.py',
    "        x.lincomb(1, x, -tau / sigma, tmp_dom)\n",
    "        x.lincomb(1, x, -tau * sigma, tmp_dom)\n")
mut('c12-accel-alpha', 'C12',
    'odl/solvers/nonsmooth/proximal_gradient_solvers.py',
    "        alpha = (t_old - 1) / t\n", "        alpha = t_old / t\n",
    known_miss=True)   # a different but still convergent momentum rule: the
#                        property as stated (converges to a KKT point, solution
#                        is a fixed point) still holds -- documented limit
mut('c12-pdhg-theta-sign', 'C12',
    'odl/solvers/nonsmooth/primal_dual_hybrid_gradient.py',
    "        x_relax.lincomb(1 + theta, x, -theta, x_old)\n",
    "        x_relax.lincomb(1 - theta, x, theta, x_old)\n")


def _apply(scratch, m):
    p = os.path.join(scratch, m['file'])
    s = open(p).read()
    if s.count(m['old']) < 1:
        return False
    s = s.replace(m['old'], m['new'], m['count'])
    open(p, 'w').write(s)
    return True


def make_scratch():
    d = tempfile.mkdtemp(prefix='odlsim-scratch-', dir='/tmp')
    shutil.copytree(os.path.join(REPO, 'odl'), os.path.join(d, 'odl'),
                    ignore=shutil.ignore_patterns('__pycache__', '*.pyc'))
    return d


def run_check(scratch, prop, runs=None, seed=0, timeout=900):
    env = dict(os.environ)
    env['ODLSIM_REPO'] = scratch
    env['ODLSIM_REPLAY_DIR'] = os.path.join(scratch, 'replays')
    env.pop('ODLSIM_REEXEC', None)
    cmd = [sys.executable, os.path.join(VERIF, 'check'), prop, '--tier',
           'quick', '--no-evidence', '--seed', str(seed)]
    if runs:
        cmd += ['--runs', str(runs)]
    p = subprocess.run(cmd, env=env, stdout=subprocess.PIPE,
                       stderr=subprocess.STDOUT, timeout=timeout)
    return p.returncode, p.stdout.decode(errors='replace')


def seeded_changes():
    d = os.path.join(VERIF, 'seeded')
    out = []
    if not os.path.isdir(d):
        return out
    for name in sorted(os.listdir(d)):
        meta = os.path.join(d, name, 'meta.json')
        patch = os.path.join(d, name, 'patch.diff')
        if os.path.exists(meta) and os.path.exists(patch):
            m = json.load(open(meta))
            out.append({'id': 'seeded/' + name, 'property': m['property'],
                        'patch': patch, 'expect': m.get('detected_by', m['property']),
                        'known_miss': m.get('known_miss', False)})
    return out


def main(args):
    only = os.environ.get('ODLSIM_MUT')
    props = os.environ.get('ODLSIM_PROPS')
    items = list(M) + seeded_changes()
    results = []
    bad = 0
    for m in items:
        if only and only not in m['id']:
            continue
        if props and m['property'] not in props.split(','):
            continue
        scratch = make_scratch()
        t0 = time.time()
        try:
            if 'patch' in m:
                p = subprocess.run(['patch', '-p1', '-s', '-d', scratch, '-i',
                                    m['patch']], stdout=subprocess.PIPE,
                                   stderr=subprocess.STDOUT)
                ok = p.returncode == 0
            else:
                ok = _apply(scratch, m)
            if not ok:
                print('{:40s} {}  PATCH DOES NOT APPLY'.format(m['id'], m['property']))
                bad += 1
                continue
            prop = m.get('expect', m['property'])
            props_to_try = prop if isinstance(prop, list) else [prop]
            detected = False
            fp = []
            per_prop = {}
            for pr in props_to_try:
                rc, out = run_check(scratch, pr)
                hit = rc == 1 and 'VIOLATION property=' + pr in out
                per_prop[pr] = hit
                if hit:
                    detected = True
                    fp += [pr + ' ' + l.strip() for l in out.splitlines()
                           if 'fingerprint:' in l][:1]
            status = 'DETECTED' if detected else 'MISSED'
            if len(per_prop) > 1:
                status += ' ' + ','.join('{}={}'.format(k, 'yes' if v else 'no')
                                         for k, v in per_prop.items())
            if not detected and not m.get('known_miss'):
                bad += 1
            print('{:40s} {}  {}  ({:.0f}s) {}'.format(
                m['id'], m['property'], status, time.time() - t0,
                ' | '.join(fp) if detected and fp else
                ('rc=%d' % rc) + (' [known miss]' if m.get('known_miss') else '')))
            sys.stdout.flush()
            results.append({'id': m['id'], 'property': m['property'],
                            'status': status, 'fingerprints': fp})
        finally:
            shutil.rmtree(scratch, ignore_errors=True)
    with open(os.path.join(VERIF, 'evidence', 'sensitivity.json'), 'w') as f:
        json.dump(results, f, indent=1)
    return 0 if bad == 0 else 2
