"""Space configs for callsim / poolsim: JSON description <-> odl space, random
elements of any space kind, comparison helpers."""
import numpy as np

from .core import np_rng, elem_arrays, HarnessError


def odl():
    import odl as _odl
    return _odl


# --------------------------------------------------------------------------
# generation
# --------------------------------------------------------------------------

def gen_space(rng, want='real', maxsize=12, allow_product=False, depth=0):
    """want: 'real' | 'complex' | 'any' | 'discr' | 'rdiscr' | 'vf' | 'int'"""
    if want == 'vf':
        base = gen_space(rng, rng.choice(['real', 'rdiscr', 'real', 'complex']),
                         maxsize=6)
        return {'k': 'power', 'base': base, 'n': rng.randint(1, 3)}
    if want == 'int':
        return {'k': 'tensor', 'shape': [rng.randint(1, 6)],
                'dtype': rng.choice(['int64', 'int32'])}
    if allow_product and depth < 2 and rng.random() < 0.3:
        if rng.random() < 0.5:
            return {'k': 'power', 'n': rng.randint(1, 3),
                    'base': gen_space(rng, want, maxsize=5, allow_product=True,
                                      depth=depth + 1)}
        # heterogeneous product: parts of different shape / kind but one
        # common dtype (odl's product-space inner product needs that)
        w2 = want if want != 'any' else rng.choice(['real', 'complex'])
        parts = [gen_space(rng, w2, maxsize=5, allow_product=True,
                           depth=depth + 1) for _ in range(rng.randint(1, 3))]
        _unify_dtype(parts, 'complex128' if w2 == 'complex' else 'float64')
        return {'k': 'prod', 'parts': parts}
    kinds = {'real': ['rn', 'rn', 'rn_w', 'rn_aw', 'tensor', 'discr', 'rn32'],
             'complex': ['cn', 'ctensor', 'cdiscr'],
             'discr': ['discr', 'discr', 'cdiscr'],
             'rdiscr': ['discr']}
    if want == 'any':
        pool = kinds['real'] + kinds['complex']
    else:
        pool = kinds[want]
    k = rng.choice(pool)
    if k in ('rn', 'rn_w', 'rn_aw', 'rn32', 'cn'):
        cfg = {'k': 'rn' if k != 'cn' else 'cn', 'n': rng.randint(1, maxsize)}
        if k == 'rn_w':
            cfg['w'] = rng.choice([0.5, 2.0, 0.125])
        if k == 'rn_aw':
            cfg['w'] = 'array'
        if k == 'rn32':
            cfg['dtype'] = 'float32'
        return cfg
    if k in ('tensor', 'ctensor'):
        nd = rng.randint(2, 3)
        shape = [rng.randint(1, 4) for _ in range(nd)]
        return {'k': 'tensor', 'shape': shape,
                'dtype': 'complex128' if k == 'ctensor' else
                rng.choice(['float64', 'float64', 'float32'])}
    if k in ('discr', 'cdiscr'):
        nd = rng.choice([1, 1, 2, 2, 3])
        hi = {1: maxsize, 2: 5, 3: 3}[nd]
        shape = [rng.randint(2, max(2, hi)) for _ in range(nd)]
        return {'k': 'discr', 'shape': shape,
                'len': [rng.choice([1.0, 2.0, 0.5, 3.0]) for _ in range(nd)],
                'dtype': 'complex128' if k == 'cdiscr' else 'float64',
                'nodes_on_bdry': rng.random() < 0.2}
    raise HarnessError(k)


def _unify_dtype(parts, dtype):
    for c in parts:
        if c['k'] in ('power',):
            _unify_dtype([c['base']], dtype)
        elif c['k'] == 'prod':
            _unify_dtype(c['parts'], dtype)
        elif c['k'] in ('tensor', 'discr'):
            c['dtype'] = dtype
        elif c['k'] == 'rn':
            c.pop('dtype', None)
            if dtype == 'complex128':
                c['k'] = 'cn'
                c.pop('w', None)


def build_space(cfg):
    o = odl()
    k = cfg['k']
    if k == 'rn':
        kw = {}
        if cfg.get('dtype'):
            kw['dtype'] = cfg['dtype']
        w = cfg.get('w')
        if w == 'array':
            kw['weighting'] = 0.5 + np.arange(cfg['n']) % 3
        elif w is not None:
            kw['weighting'] = w
        return o.rn(cfg['n'], **kw)
    if k == 'cn':
        return o.cn(cfg['n'])
    if k == 'tensor':
        kw = {}
        if cfg.get('weighting') == 'array':
            kw['weighting'] = (0.5 + (np.arange(int(np.prod(cfg['shape'])))
                                      % 3).reshape(cfg['shape'])).astype(
                np.dtype(cfg['dtype']) if np.dtype(cfg['dtype']).kind == 'f'
                else 'float64')
        elif cfg.get('weighting') is not None:
            kw['weighting'] = cfg['weighting']
        if cfg.get('exponent') is not None:
            kw['exponent'] = cfg['exponent']
        return o.tensor_space(tuple(cfg['shape']), dtype=cfg['dtype'], **kw)
    if k == 'discr':
        nd = len(cfg['shape'])
        return o.uniform_discr([0.0] * nd, cfg['len'], cfg['shape'],
                               dtype=cfg['dtype'],
                               nodes_on_bdry=cfg.get('nodes_on_bdry', False))
    if k == 'power':
        return o.ProductSpace(build_space(cfg['base']), cfg['n'])
    if k == 'prod':
        return o.ProductSpace(*[build_space(c) for c in cfg['parts']])
    raise HarnessError(k)


def space_tag(cfg):
    k = cfg['k']
    if k == 'power':
        return 'pow(' + space_tag(cfg['base']) + ')'
    if k == 'prod':
        return 'prod(' + ','.join(space_tag(c) for c in cfg['parts']) + ')'
    t = k
    if cfg.get('w') is not None:
        t += '_w' if cfg['w'] != 'array' else '_aw'
    if cfg.get('dtype') and cfg['dtype'] != 'float64':
        t += ':' + cfg['dtype']
    if k in ('discr', 'tensor'):
        t += '%dd' % len(cfg['shape'])
    return t


# --------------------------------------------------------------------------
# elements
# --------------------------------------------------------------------------

def rand_array(shape, dtype, g, scale=1.0, positive=False):
    dt = np.dtype(dtype)
    if dt.kind == 'c':
        a = (g.standard_normal(shape) + 1j * g.standard_normal(shape)) * scale
    elif dt.kind == 'f':
        a = g.standard_normal(shape) * scale
        if positive:
            a = np.abs(a) + 0.1 * scale
    elif dt.kind in 'iu':
        a = g.integers(1 if positive else -5, 6, size=shape)
    elif dt.kind == 'b':
        a = g.integers(0, 2, size=shape)
    else:
        raise HarnessError('dtype ' + str(dt))
    return np.asarray(a).astype(dt)


def rand_elem(space, g, scale=1.0, positive=False):
    """Random element of any odl set the recipes use (spaces and fields)."""
    o = odl()
    if isinstance(space, o.ProductSpace):
        return space.element([rand_elem(s, g, scale, positive) for s in space])
    if isinstance(space, o.RealNumbers):
        v = float(g.standard_normal()) * scale
        return abs(v) + 0.1 if positive else v
    if isinstance(space, o.ComplexNumbers):
        return complex(g.standard_normal(), g.standard_normal()) * scale
    if isinstance(space, o.Integers):
        return int(g.integers(-5, 6))
    return space.element(rand_array(space.shape, space.dtype, g, scale,
                                    positive))


def is_elem(x):
    return hasattr(x, 'space')


def to_flat(x):
    """1-d complex/float copy of an element, scalar or array."""
    if is_elem(x) or isinstance(x, np.ndarray):
        arrs = [np.asarray(a).ravel() for a in elem_arrays(x)]
        return np.concatenate(arrs) if len(arrs) != 1 else arrs[0].copy()
    return np.atleast_1d(np.asarray(x))


def close(a, b, tol_abs):
    """Entry-wise agreement of two flattened results: NaN patterns and
    infinities must coincide, finite entries agree within tol_abs.  Returns
    (ok, maxdiff)."""
    a = to_flat(a)
    b = to_flat(b)
    if a.shape != b.shape:
        return False, float('inf')
    if a.size == 0:
        return True, 0.0
    if a.dtype.kind in 'iub' and b.dtype.kind in 'iub':
        eq = np.array_equal(a, b)
        return eq, 0.0 if eq else float(np.max(np.abs(a.astype(float) - b)))
    a = a.astype(np.complex128)
    b = b.astype(np.complex128)
    na, nb = np.isnan(a), np.isnan(b)
    if not np.array_equal(na, nb):
        return False, float('inf')
    fin = ~na
    ia = np.isinf(a) & fin
    ib = np.isinf(b) & fin
    if not np.array_equal(ia, ib):
        return False, float('inf')
    if np.any(ia) and not np.array_equal(a[ia], b[ia]):
        return False, float('inf')
    m = fin & ~ia
    if not np.any(m):
        return True, 0.0
    d = float(np.max(np.abs(a[m] - b[m])))
    return d <= tol_abs, d


def magnitude(x):
    f = to_flat(x)
    if f.size == 0:
        return 0.0
    with np.errstate(all='ignore'):
        f = np.abs(f.astype(np.complex128))
        f = f[np.isfinite(f)]
    return float(f.max()) if f.size else 0.0


def eps_for(*things):
    """Largest machine epsilon among the float dtypes involved."""
    e = 2.2e-16
    for t in things:
        for a in (elem_arrays(t) if (is_elem(t) or isinstance(t, np.ndarray))
                  else []):
            if a.dtype.kind in 'fc':
                e = max(e, float(np.finfo(a.dtype).eps))
    return e


def relayout(x, lay):
    """Same element, same values, wrapping an array of another memory layout
    ('C', 'F', 'strided'; inside guard zones, see core.guarded_layout)."""
    from .core import guarded_layout
    if lay == 'C' or not is_elem(x):
        return x
    o = odl()
    sp = x.space
    if isinstance(sp, o.ProductSpace):
        return sp.element([relayout(p, lay) for p in x.parts])
    arrs = elem_arrays(x)
    if len(arrs) != 1 or arrs[0].ndim == 0 or arrs[0].size == 0:
        return x
    return sp.element(guarded_layout(arrs[0], lay))
