"""Batch runner: seeded search over plans, minimisation, replay, evidence."""
import copy
import faulthandler
import hashlib
import importlib
import json
import multiprocessing
import os
import subprocess
import sys
import time
import traceback
from collections import Counter
from concurrent.futures import ProcessPoolExecutor, as_completed

from . import core
from .core import Violation, Reject, HarnessError, Ctx
from .env import VERIF

ENGINE_OF = {
    'C01': 'poolsim', 'C17': 'poolsim',
    'C03': 'callsim', 'C10': 'callsim',
    'C11': 'solversim', 'C12': 'solversim',
    'C18': 'fftsim',
}

EXIT_OK, EXIT_VIOLATION, EXIT_HARNESS = 0, 1, 2
# per-run digests are kept only when asked for (selftest-determinism); big
# batches fold them into an order-independent 48-bit checksum instead
KEEP_DIGESTS = os.environ.get('ODLSIM_KEEP_DIGESTS') == '1'


def engine_for(prop):
    name = ENGINE_OF[prop]
    return importlib.import_module('odlsim.engines.' + name)


# --------------------------------------------------------------------------
# single run
# --------------------------------------------------------------------------

_HEAP_JUNK = []


def _heap_noise(seed):
    """Self-test only (ODLSIM_HEAP_NOISE=<n>): hold and release blocks of
    random small sizes between runs, so that the same plan meets another heap
    layout.  Digests must not care (NumPy's inner-loop selection does: see
    core.guarded_layout)."""
    import random
    import numpy as np
    g = random.Random((seed << 8) ^ int(os.environ['ODLSIM_HEAP_NOISE']))
    for _ in range(g.randint(1, 12)):
        _HEAP_JUNK.append(np.zeros(g.choice([1, 3, 6, 9, 18, 40, 100, 300]),
                                   dtype=g.choice(['u1', 'f8', 'c16'])))
    while len(_HEAP_JUNK) > 40:
        _HEAP_JUNK.pop(g.randrange(len(_HEAP_JUNK)))


def execute_plan(prop, plan, seed=0, keep_log=False):
    """Execute one plan.  Returns (ctx, outcome) with outcome one of
    ('ok', None), ('reject', msg), ('violation', Violation)."""
    eng = engine_for(prop)
    if os.environ.get('ODLSIM_HEAP_NOISE'):
        _heap_noise(seed)
    ctx = Ctx(seed=seed, keep_log=keep_log)
    try:
        eng.execute(prop, plan, ctx)
    except Violation as v:
        return ctx, ('violation', v)
    except Reject as r:
        return ctx, ('reject', str(r))
    return ctx, ('ok', None)


def gen_plan(prop, tier, batch_seed, r):
    eng = engine_for(prop)
    seed = core.run_seed(batch_seed, prop, r)
    rng = core.py_rng('plan', seed)
    plan = eng.generate(prop, rng, tier)
    plan['seed'] = seed
    return plan


def one_run(prop, tier, batch_seed, r, keep_log=False):
    plan = gen_plan(prop, tier, batch_seed, r)
    ctx, outcome = execute_plan(prop, plan, plan['seed'], keep_log=keep_log)
    return plan, ctx, outcome


# run indices this worker PROCESS has executed so far, in order (a worker
# serves many chunks): the history a violation may depend on when the library
# under test keeps state at module level
_HISTORY = []
HIST_CAP = 6000


def _work(args):
    prop, tier, batch_seed, start, count, deadline, hang_s = args
    from . import seams
    seams.install()
    agg = {
        'runs': 0, 'rejects': 0, 'stats': Counter(), 'cover': set(),
        'violations': [], 'errors': [], 'samples': [], 'digests': [],
        'start': start, 'count': count, 'xor': 0,
    }
    per_fp = Counter()
    for r in range(start, start + count):
        if time.time() > deadline:
            break
        faulthandler.dump_traceback_later(hang_s, exit=True)
        try:
            plan, ctx, (kind, val) = one_run(prop, tier, batch_seed, r)
        except Exception:
            agg['errors'].append({'r': r, 'trace': traceback.format_exc()})
            if len(agg['errors']) > 5:
                break
            continue
        finally:
            faulthandler.cancel_dump_traceback_later()
        agg['runs'] += 1
        agg['stats'].update(ctx.stats)
        agg['cover'] |= ctx.cover
        if KEEP_DIGESTS:
            agg['digests'].append((r, ctx.digest()))
        else:
            agg['xor'] ^= int(ctx.digest()[:12], 16) ^ (r * 0x9E3779B97F4A7C15 & 0xFFFFFFFFFFFF)
        if kind == 'reject':
            agg['rejects'] += 1
        elif kind == 'violation':
            per_fp[val.fingerprint] += 1
            if per_fp[val.fingerprint] <= 2:
                agg['violations'].append({
                    'r': r, 'seed': plan['seed'], 'plan': plan,
                    'fingerprint': val.fingerprint, 'message': val.message,
                    'history': list(_HISTORY[-HIST_CAP:])})
        _HISTORY.append(r)
        if len(agg['samples']) < 1 and kind == 'ok':
            agg['samples'].append(plan)
    agg['viol_counts'] = dict(per_fp)
    return agg


# --------------------------------------------------------------------------
# minimisation
# --------------------------------------------------------------------------

def _fails_same(prop, plan, fingerprint):
    try:
        ctx, (kind, val) = execute_plan(prop, plan, plan.get('seed', 0))
    except Exception:
        return False
    return kind == 'violation' and val.fingerprint == fingerprint


def minimise(prop, plan, fingerprint, budget_execs=300, budget_s=90.0):
    """Shrink `plan` while the same fingerprint persists: ddmin over the
    plan's list-valued 'ops' (and any other list named in plan['_shrink']),
    then engine-specific simplifications."""
    eng = engine_for(prop)
    t0 = time.time()
    execs = [0]

    def test(p):
        if execs[0] >= budget_execs or time.time() - t0 > budget_s:
            return False
        execs[0] += 1
        return _fails_same(prop, p, fingerprint)

    best = copy.deepcopy(plan)
    for key in best.get('_shrink', ['ops']):
        seq = best.get(key)
        if not isinstance(seq, list) or len(seq) < 2:
            continue
        n = 2
        while len(seq) >= 2 and n <= len(seq):
            chunk = max(1, len(seq) // n)
            reduced = False
            for i in range(0, len(seq), chunk):
                cand_seq = seq[:i] + seq[i + chunk:]
                cand = copy.deepcopy(best)
                cand[key] = cand_seq
                if hasattr(eng, 'fixup'):
                    cand = eng.fixup(prop, cand)
                    if cand is None:
                        continue
                if test(cand):
                    best, seq = cand, cand[key]
                    n = max(n - 1, 2)
                    reduced = True
                    break
            if not reduced:
                if chunk == 1:
                    break
                n = min(len(seq), n * 2)
    if hasattr(eng, 'simplify'):
        progress = True
        while progress and execs[0] < budget_execs:
            progress = False
            for cand in eng.simplify(prop, copy.deepcopy(best)):
                if test(cand):
                    best = cand
                    progress = True
                    break
    return best, execs[0]


# --------------------------------------------------------------------------
# replay files and known findings
# --------------------------------------------------------------------------

def load_known():
    path = os.path.join(VERIF, 'known_findings.json')
    if not os.path.exists(path):
        return {'findings': [], 'fixed': []}
    with open(path) as f:
        return json.load(f)


def known_entry(prop, fingerprint, known):
    for e in known.get('findings', []):
        if e.get('property') == prop and e.get('fingerprint') == fingerprint:
            return e
    return None


def write_replay(prop, plan, fingerprint, message, seed, tier, orig_len=None,
                 history=None, suffix=''):
    d = os.path.join(os.environ.get('ODLSIM_REPLAY_DIR') or
                     os.path.join(VERIF, 'replays'), prop)
    os.makedirs(d, exist_ok=True)
    fh = hashlib.sha256(fingerprint.encode()).hexdigest()[:12]
    path = os.path.join(d, fh + suffix + '.json')
    rec = {'property': prop, 'fingerprint': fingerprint,
           'message': message, 'seed': seed, 'tier': tier,
           'plan': plan, 'original_ops': orig_len}
    if history:
        # plans of EARLIER runs of the same process, executed first (their
        # outcomes do not matter): what the failing run found in the process
        rec['history'] = history
    with open(path, 'w') as f:
        json.dump(rec, f, indent=1, sort_keys=True, default=str)
    return path


def replay(path, quiet=False):
    """Re-execute a stored plan.  Exit code 1 iff it reproduces."""
    from . import seams
    seams.install()
    with open(path) as f:
        rec = json.load(f)
    prop = rec['property']
    for hp in rec.get('history') or []:
        try:
            execute_plan(prop, hp, hp.get('seed', 0))
        except Exception:
            pass
    if rec.get('history') and not quiet:
        print('REPLAY executed {} earlier run(s) of the process first'.format(
            len(rec['history'])))
    ctx, (kind, val) = execute_plan(prop, rec['plan'], rec.get('seed', 0),
                                    keep_log=True)
    if kind == 'violation':
        same = val.fingerprint == rec['fingerprint']
        if not quiet:
            print('REPLAY {} fingerprint={} same={} digest={}'.format(
                kind, val.fingerprint, same, ctx.digest()))
            print('  ' + val.message)
        if same:
            print('VIOLATION property={} replay={}'.format(prop, path))
            return EXIT_VIOLATION
        print('VIOLATION property={} replay={}  (different fingerprint: {})'
              ''.format(prop, path, val.fingerprint))
        return EXIT_VIOLATION
    print('REPLAY {}: not reproduced ({})'.format(path, kind))
    return EXIT_OK


def _replay_fresh(prop, path):
    """Replay in a fresh interpreter; True iff it reproduces."""
    cmd = [sys.executable, os.path.join(VERIF, 'check'), prop, '--replay', path]
    try:
        p = subprocess.run(cmd, stdout=subprocess.PIPE, stderr=subprocess.STDOUT,
                           timeout=300)
    except subprocess.TimeoutExpired:
        return False, 'timeout'
    out = p.stdout.decode(errors='replace')
    ok = p.returncode == EXIT_VIOLATION and 'same=True' in out
    return ok, out


def history_search(prop, tier, batch_seed, v, budget_s=300.0):
    """A violation that does not replay on its own may depend on what earlier
    runs left behind in the worker process (module-level state of the library
    under test).  Re-execute, in fresh processes, the runs that worker had
    executed before, followed by the failing plan; if that reproduces, shrink
    the list of predecessors with ddmin.  Returns (path, n_predecessors,
    n_tests) or None."""
    hist = list(v.get('history') or [])
    if not hist:
        return None
    t0 = time.time()
    tests = [0]

    def test(rs):
        tests[0] += 1
        plans = [gen_plan(prop, tier, batch_seed, r) for r in rs]
        path = write_replay(prop, v['plan'], v['fingerprint'], v['message'],
                            v['seed'], tier, history=plans, suffix='.hist')
        ok, _ = _replay_fresh(prop, path)
        return ok

    if not test(hist):
        return None
    cur, n = hist, 2
    while len(cur) >= 2 and time.time() - t0 < budget_s:
        size = -(-len(cur) // n)
        subsets = [cur[i:i + size] for i in range(0, len(cur), size)]
        reduced = False
        for sub in subsets:
            if time.time() - t0 > budget_s:
                break
            if test(sub):
                cur, n, reduced = sub, 2, True
                break
        if not reduced:
            for i in range(len(subsets)):
                if time.time() - t0 > budget_s or len(subsets) <= 2:
                    break
                comp = [r for j, sub in enumerate(subsets) if j != i
                        for r in sub]
                if test(comp):
                    cur, n, reduced = comp, max(n - 1, 2), True
                    break
        if not reduced:
            if n >= len(cur):
                break
            n = min(len(cur), 2 * n)
    plans = [gen_plan(prop, tier, batch_seed, r) for r in cur]
    path = write_replay(prop, v['plan'], v['fingerprint'], v['message'],
                        v['seed'], tier, history=plans, suffix='.hist')
    ok, _ = _replay_fresh(prop, path)
    if not ok:
        return None
    return path, len(cur), tests[0]


# --------------------------------------------------------------------------
# batch
# --------------------------------------------------------------------------

def run_batch(prop, tier='quick', batch_seed=0, budget_s=None, nruns=None,
              workers=None, write_evidence=True, quiet=False):
    eng = engine_for(prop)
    tcfg = eng.TIERS[prop][tier]
    nruns = int(nruns if nruns is not None else tcfg['runs'])
    budget_s = float(budget_s if budget_s is not None else tcfg['budget_s'])
    workers = int(workers or os.environ.get('ODLSIM_WORKERS') or
                  min(16, os.cpu_count() or 1))
    chunk = int(tcfg.get('chunk', 50))
    hang_s = int(tcfg.get('hang_s', 120))
    t0 = time.time()
    deadline = t0 + budget_s
    tasks = [(prop, tier, batch_seed, s, min(chunk, nruns - s), deadline, hang_s)
             for s in range(0, nruns, chunk)]
    total = {'runs': 0, 'rejects': 0, 'stats': Counter(), 'cover': set(),
             'violations': [], 'errors': [], 'samples': [], 'digests': [],
             'viol_counts': Counter(), 'xor': 0}
    ctx_mp = multiprocessing.get_context('fork')
    if workers <= 1:
        results = map(_work, tasks)
        pool = None
    else:
        pool = ProcessPoolExecutor(max_workers=workers, mp_context=ctx_mp)
        futs = [pool.submit(_work, t) for t in tasks]
        results = (f.result() for f in as_completed(futs))
    harness_fail = None
    try:
        for agg in results:
            total['runs'] += agg['runs']
            total['rejects'] += agg['rejects']
            total['stats'].update(agg['stats'])
            total['cover'] |= agg['cover']
            total['violations'].extend(agg['violations'])
            total['errors'].extend(agg['errors'])
            total['digests'].extend(agg['digests'])
            total['xor'] ^= agg.get('xor', 0)
            total['viol_counts'].update(agg['viol_counts'])
            if len(total['samples']) < 3:
                total['samples'].extend(agg['samples'][:1])
    except Exception:
        harness_fail = traceback.format_exc()
    finally:
        if pool is not None:
            pool.shutdown(wait=True, cancel_futures=True)
    wall_search = time.time() - t0

    # ---- triage -------------------------------------------------------
    from . import seams
    seams.install()
    known = load_known()
    by_fp = {}
    for v in sorted(total['violations'], key=lambda v: v['r']):
        by_fp.setdefault(v['fingerprint'], v)
    new_viol = []
    known_lines = []
    for fp, v in sorted(by_fp.items()):
        e = known_entry(prop, fp, known)
        if e is not None:
            known_lines.append('KNOWN-FINDING: property={} {} [{}] (seen {}x, e.g. seed {})'
                               ''.format(prop, e.get('what', ''), fp,
                                         total['viol_counts'][fp], v['seed']))
        else:
            new_viol.append(v)
    if not quiet:
        for line in known_lines:
            print(line)

    exit_code = EXIT_OK
    replay_paths = []
    max_report = int(os.environ.get('ODLSIM_MAX_REPORT', '6'))
    hist_tried = False
    for v in new_viol[:max_report]:
        orig_len = len(v['plan'].get('ops', []))
        try:
            small, execs = minimise(prop, v['plan'], v['fingerprint'])
        except Exception:
            small, execs = v['plan'], 0
        path = write_replay(prop, small, v['fingerprint'], v['message'],
                            v['seed'], tier, orig_len)
        ok, out = _replay_fresh(prop, path)
        if ok:
            print('VIOLATION property={} replay={}'.format(prop, path))
            print('  fingerprint: ' + v['fingerprint'])
            print('  ' + v['message'][:400])
            print('  (seed {}, minimised with {} re-executions, seen {}x)'
                  ''.format(v['seed'], execs, total['viol_counts'][v['fingerprint']]))
            replay_paths.append(path)
            exit_code = EXIT_VIOLATION
        else:
            # try the un-minimised plan before declaring a harness error
            path = write_replay(prop, v['plan'], v['fingerprint'], v['message'],
                                v['seed'], tier, orig_len)
            ok2, out2 = _replay_fresh(prop, path)
            if ok2:
                print('VIOLATION property={} replay={}'.format(prop, path))
                print('  fingerprint: ' + v['fingerprint'])
                print('  ' + v['message'][:400])
                replay_paths.append(path)
                exit_code = EXIT_VIOLATION
            else:
                found = None
                if not hist_tried:
                    # once per batch: does it reproduce together with the
                    # runs the same worker process had executed before?
                    hist_tried = True
                    try:
                        found = history_search(prop, tier, batch_seed, v)
                    except Exception:
                        found = None
                if found:
                    hpath, npred, ntests = found
                    print('VIOLATION property={} replay={}'.format(prop, hpath))
                    print('  fingerprint: ' + v['fingerprint'])
                    print('  ' + v['message'][:400])
                    print('  (seed {}; does not fail on its own: needs {} '
                          'earlier run(s) of the same process, shrunk from {} '
                          'with {} fresh-process re-executions -- the library '
                          'keeps state between independent histories)'.format(
                              v['seed'], npred, len(v.get('history') or []),
                              ntests))
                    replay_paths.append(hpath)
                    exit_code = EXIT_VIOLATION
                    continue
                print('HARNESS-ERROR: violation {} did not reproduce in a '
                      'fresh process:\n{}'.format(v['fingerprint'], out2[-800:]))
                if exit_code == EXIT_OK:
                    exit_code = EXIT_HARNESS
    if exit_code == EXIT_HARNESS and len(new_viol) > max_report:
        # None of the first fingerprints replays on its own: the failures
        # depend on what EARLIER runs left behind in the worker process
        # (module-level state in the library under test).  Look through the
        # remaining fingerprints for one whose run carries its whole history
        # itself -- an honest VIOLATION with a replay file beats exit 2.
        t_tri = time.time()
        budget_tri = float(os.environ.get('ODLSIM_TRIAGE_BUDGET', '240'))
        tried = 0
        for v in new_viol[max_report:]:
            if time.time() - t_tri > budget_tri:
                break
            tried += 1
            orig_len = len(v['plan'].get('ops', []))
            path = write_replay(prop, v['plan'], v['fingerprint'],
                                v['message'], v['seed'], tier, orig_len)
            ok, out = _replay_fresh(prop, path)
            if not ok:
                try:
                    os.remove(path)
                except OSError:
                    pass
                continue
            try:
                small, execs = minimise(prop, v['plan'], v['fingerprint'])
                path2 = write_replay(prop, small, v['fingerprint'],
                                     v['message'], v['seed'], tier, orig_len)
                ok2, _ = _replay_fresh(prop, path2)
                if ok2:
                    path = path2
            except Exception:
                pass
            print('VIOLATION property={} replay={}'.format(prop, path))
            print('  fingerprint: ' + v['fingerprint'])
            print('  ' + v['message'][:400])
            print('  (seed {}; {} further fingerprints did not replay on '
                  'their own: they depend on state earlier runs left in the '
                  'worker process)'.format(v['seed'], tried - 1 + max_report))
            replay_paths.append(path)
            exit_code = EXIT_VIOLATION
            break
    if len(new_viol) > max_report:
        print('... and {} more distinct fingerprints: {}'.format(
            len(new_viol) - max_report,
            [v['fingerprint'] for v in new_viol[max_report:]]))

    if total['errors'] or harness_fail:
        print('HARNESS-ERROR: {} run(s) raised outside any oracle'.format(
            len(total['errors'])))
        if harness_fail:
            print(harness_fail)
        for e in total['errors'][:3]:
            print('  run {}:\n{}'.format(e['r'], e['trace']))
        if exit_code == EXIT_OK:
            exit_code = EXIT_HARNESS
    if total['runs'] == 0 and exit_code == EXIT_OK:
        print('HARNESS-ERROR: no runs executed')
        exit_code = EXIT_HARNESS

    wall = time.time() - t0
    ev = None
    if write_evidence:
        ev = evidence(prop, tier, batch_seed, total, wall, wall_search, nruns,
                      workers, len(new_viol), known_lines, replay_paths, eng)
    if not quiet:
        print('{} {} seed={} runs={} rejects={} steps={} distinct={} '
              'violations={} known={} wall={:.1f}s exit={}'.format(
                  prop, tier, batch_seed, total['runs'], total['rejects'],
                  total['stats'].get('steps', 0), len(total['cover']),
                  len(new_viol), len(known_lines), wall, exit_code))
    total['exit'] = exit_code
    total['evidence'] = ev
    return exit_code, total


def batch_digest(total):
    if not total['digests']:
        return 'xor48:%012x' % total.get('xor', 0)
    h = hashlib.sha256()
    for r, d in sorted(total['digests']):
        h.update(('%d:%s;' % (r, d)).encode())
    return h.hexdigest()[:24]


def evidence(prop, tier, batch_seed, total, wall, wall_search, nruns, workers,
             nviol, known_lines, replay_paths, eng):
    stats = total['stats']
    faults = {k[6:]: v for k, v in sorted(stats.items()) if k.startswith('fault:')}
    probes = {k[6:]: v for k, v in sorted(stats.items()) if k.startswith('probe:')}
    runs = total['runs']
    ev = {
        'property_id': prop,
        'tier': tier,
        'seed': int(batch_seed),
        'level': 'exploration',
        'coverage': {
            'evaluations': runs,
            'distinct_nontrivial': len(total['cover']),
            'rule': eng.RULE[prop],
            'samples': total['samples'][:3] or [{'note': 'no clean run to sample'}],
            'exhaustive': False,
            'runs_requested': nruns,
            'runs_rejected_config': total['rejects'],
            'runs_per_hour': int(runs / max(wall_search, 1e-6) * 3600),
            'seeds': 'run r uses seed SHA256(("run", {}, "{}", r)) for r in [0, {})'.format(
                batch_seed, prop, runs),
            'simulated_steps': int(stats.get('steps', 0)),
            'simulated_time': 'not applicable: no property of odl reads a clock; '
                              'steps are operations / solver iterations',
            'faults_fired': faults,
            'reach_probes': probes,
            'batch_digest': batch_digest(total),
            'workers': workers,
            'components': eng.COMPONENTS,
            'known_findings_seen': known_lines,
            'replays': replay_paths,
            'distinct_by_kind': dict(Counter(
                '|'.join(c.split('|')[:2]) for c in total['cover'])),
            'distinct_sample': sorted(total['cover'])[::max(1, len(total['cover']) // 25)][:25],
        },
        'assumptions': eng.ASSUMPTIONS[prop],
        'wall_s': round(wall, 2),
        'violations': int(nviol),
    }
    if hasattr(eng, 'extra_evidence'):
        try:
            extra = eng.extra_evidence(prop, total)
            ev['coverage'].update(extra)
            ncls = sum(1 for c in total['cover'] if c.startswith('class-called|'))
            ev['coverage']['distinct_nontrivial'] -= ncls
        except Exception as e:
            ev['coverage']['extra_evidence_error'] = str(e)[:200]
    d = os.path.join(VERIF, 'evidence')
    os.makedirs(d, exist_ok=True)
    with open(os.path.join(d, prop + '.json'), 'w') as f:
        json.dump(ev, f, indent=1, sort_keys=True, default=str)
    return ev
